#!/bin/sh
# setup_cmd: build the harness for /repo in both profiles, offline, from files on disk only.
set -e
cd "$(dirname "$0")"
export CARGO_NET_OFFLINE=true
exec ./check build
