//! E2 — explicit-state search over operation sequences with stateright 0.31.
//! A state pairs a live astrolabe value with the reference model's value; `next_state`
//! executes one real API call and the model step and records any disagreement in the state,
//! which the `always` property then reports with the shortest path (BFS).
use crate::alphabets as ab;
use crate::engine::{call, Acc, Out, Report};
use crate::real::{dt_from_off, dt_instant, off_secs};
use crate::refmodel::calendar as cal;
use crate::refmodel::fields;
use crate::refmodel::instant as ins;
use astrolabe::{DateTime, DateUtilities, Offset, OffsetUtilities, Time, TimeUtilities};
use serde_json::{json, Value};
use std::cell::RefCell;
use stateright::{Checker, Model, Property};
use std::hash::{Hash, Hasher};
use std::sync::atomic::{AtomicU64, Ordering};
use std::sync::Arc;
use std::time::Duration;

thread_local! {
    /// see engine::pin_foreign_chunks
    pub static PIN: Vec<Vec<u8>> = crate::engine::pin_foreign_chunks();
}

#[derive(Clone, Debug, PartialEq)]
pub enum DtOp {
    Unit(usize, u32),
    Dur(bool, u64, u32),
    Tim(bool, u64),
    SetOff(i32),
    AsOff(i32),
    Set(usize, i64),
    Clear(usize),
    /// 0 add_months 1 sub_months 2 add_years 3 sub_years
    Cal(usize, u32),
}

#[derive(Clone, Copy, PartialEq, Eq)]
pub enum DtMenu {
    Arithmetic,
    SetClear,
    Calendar,
    /// month / year arithmetic (which may clamp the day) interleaved with the date setters and clears
    Mixed,
}

#[derive(Clone, Debug)]
pub struct DtState {
    pub real: DateTime,
    pub inst: i128,
    pub off: i32,
    pub bad: Option<String>,
    pub depth: u8,
}

impl PartialEq for DtState {
    fn eq(&self, o: &Self) -> bool {
        format!("{:?}", self.real) == format!("{:?}", o.real) && self.inst == o.inst && self.off == o.off && self.bad.is_some() == o.bad.is_some() && self.depth == o.depth
    }
}
impl Eq for DtState {}
impl Hash for DtState {
    fn hash<H: Hasher>(&self, h: &mut H) {
        format!("{:?}", self.real).hash(h);
        self.inst.hash(h);
        self.off.hash(h);
        self.bad.is_some().hash(h);
        self.depth.hash(h);
    }
}

pub struct DtMachine {
    pub inits: Vec<(i64, u64, i32)>,
    pub menu: Vec<DtOp>,
    pub max_depth: u8,
    pub transitions: Arc<AtomicU64>,
    pub expected_panics: Arc<AtomicU64>,
}

const MARGIN: i128 = 2 * ins::DAY;

fn near_edge(local: i128) -> bool {
    local < ins::MIN_INSTANT + MARGIN || local > ins::MAX_INSTANT - MARGIN
}

/// Apply one op to the real value.
pub fn dt_apply(real: &DateTime, op: &DtOp) -> Out<DateTime> {
    match op {
        DtOp::Unit(o, n) => call(|| crate::props::c04::apply_unit(real, *o, *n)),
        DtOp::Dur(sub, s, ns) => {
            let d = Duration::new(*s, *ns);
            call(|| if *sub { *real - d } else { *real + d })
        }
        DtOp::Tim(sub, n) => {
            let t = Time::from_nanos(*n).unwrap();
            call(|| if *sub { *real - t } else { *real + t })
        }
        DtOp::SetOff(o) => call(|| real.set_offset(Offset::Fixed(*o))),
        DtOp::AsOff(o) => call(|| real.as_offset(Offset::Fixed(*o))),
        DtOp::Set(f, v) => {
            let r = call(|| match f {
                0 => real.set_year(*v as i32),
                1 => real.set_month(*v as u32),
                2 => real.set_day(*v as u32),
                3 => real.set_day_of_year(*v as u32),
                4 => real.set_hour(*v as u32),
                5 => real.set_minute(*v as u32),
                6 => real.set_second(*v as u32),
                7 => real.set_milli(*v as u32),
                8 => real.set_micro(*v as u32),
                _ => real.set_nano(*v as u32),
            });
            match r {
                Out::Val(Ok(v)) => Out::Val(v),
                Out::Val(Err(e)) => Out::Err(e.to_string()),
                Out::Panic(p) => Out::Panic(p),
                Out::Err(e) => Out::Err(e),
            }
        }
        DtOp::Cal(o, n) => call(|| match o {
            0 => real.add_months(*n),
            1 => real.sub_months(*n),
            2 => real.add_years(*n),
            _ => real.sub_years(*n),
        }),
        DtOp::Clear(u) => call(|| match u {
            0 => real.clear_until_year(),
            1 => real.clear_until_month(),
            2 => real.clear_until_day(),
            3 => real.clear_until_hour(),
            4 => real.clear_until_minute(),
            5 => real.clear_until_second(),
            6 => real.clear_until_milli(),
            7 => real.clear_until_micro(),
            _ => real.clear_until_nano(),
        }),
    }
}

/// What the reference model expects: Skip (not judged), Panic, Refuse (Err) or a new (instant, offset).
pub enum Expect {
    Skip,
    Panic,
    Refuse,
    Value(i128, i32),
}

pub fn dt_expect(inst: i128, off: i32, op: &DtOp) -> Expect {
    let val = |r: i128, o: i32| if ins::representable(r) { Expect::Value(r, o) } else { Expect::Panic };
    match op {
        DtOp::Unit(o, n) => match crate::props::c04::expected_unit(inst, *o, *n) {
            Some(r) => Expect::Value(r, off),
            None => Expect::Panic,
        },
        DtOp::Dur(sub, s, ns) => {
            let d = *s as i128 * ins::NS + *ns as i128;
            val(if *sub { inst - d } else { inst + d }, off)
        }
        DtOp::Tim(sub, n) => val(if *sub { inst - *n as i128 } else { inst + *n as i128 }, off),
        DtOp::SetOff(o) => {
            if near_edge(inst) {
                Expect::Skip
            } else {
                Expect::Value(inst, *o)
            }
        }
        DtOp::AsOff(o) => {
            let r = inst - *o as i128 * ins::NS;
            if near_edge(inst) || near_edge(r) {
                Expect::Skip
            } else {
                Expect::Value(r, *o)
            }
        }
        DtOp::Set(f, v) => {
            let local = inst + off as i128 * ins::NS;
            if near_edge(local) {
                return Expect::Skip;
            }
            match fields::set_field(local, *f, *v) {
                Some(l2) => {
                    if near_edge(l2) {
                        Expect::Skip
                    } else {
                        Expect::Value(l2 - off as i128 * ins::NS, off)
                    }
                }
                None => Expect::Refuse,
            }
        }
        DtOp::Cal(o, n) => {
            // judged only where the local date equals the UTC date (the statement does not say which
            // day of month is kept otherwise)
            let (day, nod) = ins::split(inst);
            if ins::split(inst + off as i128 * ins::NS).0 != day {
                return Expect::Skip;
            }
            let months = match o {
                0 => *n as i64,
                1 => -(*n as i64),
                2 => *n as i64 * 12,
                _ => -(*n as i64) * 12,
            };
            match cal::day_add_months(day, months) {
                Some(d2) => {
                    if ins::split(ins::join(d2, nod) + off as i128 * ins::NS).0 != d2 {
                        Expect::Skip
                    } else {
                        Expect::Value(ins::join(d2, nod), off)
                    }
                }
                None => Expect::Panic,
            }
        }
        DtOp::Clear(u) => {
            let local = inst + off as i128 * ins::NS;
            if near_edge(local) {
                return Expect::Skip;
            }
            let l2 = fields::clear_until(local, *u);
            if near_edge(l2) {
                // first partial year of the range: the cleared date does not exist (statement silent)
                return Expect::Skip;
            }
            Expect::Value(l2 - off as i128 * ins::NS, off)
        }
    }
}

impl Model for DtMachine {
    type State = DtState;
    type Action = u16;

    fn init_states(&self) -> Vec<DtState> {
        self.inits
            .iter()
            .filter_map(|&(d, n, o)| dt_from_off(d, n, o).map(|real| DtState { real, inst: ins::join(d, n), off: o, bad: None, depth: 0 }))
            .collect()
    }

    fn actions(&self, s: &DtState, actions: &mut Vec<u16>) {
        if s.bad.is_none() && s.depth < self.max_depth {
            actions.extend(0..self.menu.len() as u16);
        }
    }

    fn next_state(&self, s: &DtState, a: u16) -> Option<DtState> {
        PIN.with(|_| ());
        let op = &self.menu[a as usize];
        let exp = dt_expect(s.inst, s.off, op);
        if matches!(exp, Expect::Skip) {
            return None;
        }
        self.transitions.fetch_add(1, Ordering::Relaxed);
        let got = dt_apply(&s.real, op);
        let depth = s.depth + 1;
        match (exp, got) {
            (Expect::Panic, Out::Panic(_)) | (Expect::Refuse, Out::Err(_)) => {
                self.expected_panics.fetch_add(1, Ordering::Relaxed);
                None
            }
            (Expect::Value(i, o), Out::Val(v)) => {
                let gi = dt_instant(&v);
                let go = off_secs(v.get_offset());
                let bad = if gi == Some(i) && go == o { None } else { Some(format!("op {:?}: expected instant {} offset {}, observed instant {:?} offset {} ({:?})", op, i, o, gi, go, v)) };
                Some(DtState { real: v, inst: i, off: o, bad, depth })
            }
            (e, g) => {
                let want = match e {
                    Expect::Panic => "panic".to_string(),
                    Expect::Refuse => "Err(OutOfRange)".to_string(),
                    Expect::Value(i, o) => format!("instant {} offset {}", i, o),
                    Expect::Skip => unreachable!(),
                };
                Some(DtState { real: s.real, inst: s.inst, off: s.off, bad: Some(format!("op {:?}: expected {}, observed {}", op, want, g.show())), depth })
            }
        }
    }

    fn properties(&self) -> Vec<Property<Self>> {
        vec![Property::always("real value agrees with the reference model", |_, s: &DtState| s.bad.is_none())]
    }
}

pub fn op_to_json(op: &DtOp) -> Value {
    match op {
        DtOp::Unit(o, n) => json!({"t": "unit", "op": o, "n": n}),
        DtOp::Dur(s, a, b) => json!({"t": "dur", "sub": s, "secs": a.to_string(), "ns": b}),
        DtOp::Tim(s, n) => json!({"t": "time", "sub": s, "nanos": n.to_string()}),
        DtOp::SetOff(o) => json!({"t": "set_offset", "off": o}),
        DtOp::AsOff(o) => json!({"t": "as_offset", "off": o}),
        DtOp::Set(f, v) => json!({"t": "set", "field": f, "v": v}),
        DtOp::Clear(u) => json!({"t": "clear", "unit": u}),
        DtOp::Cal(o, n) => json!({"t": "cal", "op": o, "n": n}),
    }
}

pub fn op_from_json(v: &Value) -> Option<DtOp> {
    Some(match v["t"].as_str()? {
        "unit" => DtOp::Unit(v["op"].as_u64()? as usize, v["n"].as_u64()? as u32),
        "dur" => DtOp::Dur(v["sub"].as_bool()?, v["secs"].as_str()?.parse().ok()?, v["ns"].as_u64()? as u32),
        "time" => DtOp::Tim(v["sub"].as_bool()?, v["nanos"].as_str()?.parse().ok()?),
        "set_offset" => DtOp::SetOff(v["off"].as_i64()? as i32),
        "as_offset" => DtOp::AsOff(v["off"].as_i64()? as i32),
        "set" => DtOp::Set(v["field"].as_u64()? as usize, v["v"].as_i64()?),
        "clear" => DtOp::Clear(v["unit"].as_u64()? as usize),
        "cal" => DtOp::Cal(v["op"].as_u64()? as usize, v["n"].as_u64()? as u32),
        _ => return None,
    })
}

fn describe(op: &DtOp) -> String {
    match op {
        DtOp::Unit(o, _) => crate::props::c04::op_name(*o),
        DtOp::Dur(s, _, _) => format!("DateTime {} Duration", if *s { "-" } else { "+" }),
        DtOp::Tim(s, _) => format!("DateTime {} Time", if *s { "-" } else { "+" }),
        DtOp::SetOff(_) => "DateTime::set_offset".into(),
        DtOp::AsOff(_) => "DateTime::as_offset".into(),
        DtOp::Set(f, _) => format!("DateTime::set_{}", fields::SET_NAMES[*f]),
        DtOp::Clear(u) => format!("DateTime::clear_until_{}", fields::CLEAR_NAMES[*u]),
        DtOp::Cal(o, _) => format!("DateTime::{}", ["add_months", "sub_months", "add_years", "sub_years"][*o]),
    }
}

pub fn dt_menu(kind: DtMenu) -> Vec<DtOp> {
    let mut m = vec![];
    match kind {
        DtMenu::Arithmetic => {
            for op in 0..14 {
                for n in [1u32, 24, 5_124_096, u32::MAX] {
                    m.push(DtOp::Unit(op, n));
                }
            }
            for sub in [false, true] {
                for (s, ns) in [(0u64, 1u32), (86_400, 1), (719_162 * 86_400, 999_999_999), (u64::MAX / 4, 0)] {
                    m.push(DtOp::Dur(sub, s, ns));
                }
                for n in [1u64, ab::DAY_NS - 1] {
                    m.push(DtOp::Tim(sub, n));
                }
            }
            for o in [0, 3600, -86_399] {
                m.push(DtOp::SetOff(o));
            }
        }
        DtMenu::SetClear => {
            for (f, vals) in [(0usize, vec![-5i64, -1, 0, 1, 2023, 2024]), (1, vec![0, 1, 2, 12, 13]), (2, vec![0, 1, 29, 30, 31, 32]), (3, vec![0, 1, 60, 365, 366, 367]), (4, vec![0, 23, 24]), (5, vec![0, 59, 60]), (6, vec![30, 60]), (7, vec![0, 999, 1000]), (8, vec![1, 999_999]), (9, vec![999_999_999, 1_000_000_000])] {
                for v in vals {
                    m.push(DtOp::Set(f, v));
                }
            }
            for u in 0..9 {
                m.push(DtOp::Clear(u));
            }
            for o in [0, 3600, -3600, 86_399, -86_399, 19_800] {
                m.push(DtOp::SetOff(o));
            }
            m.push(DtOp::Unit(3, 1)); // sub_hours(1): moves across a local/UTC day boundary
            m.push(DtOp::Unit(12, 1));
        }
        DtMenu::Mixed => {
            for o in 0..4 {
                for n in [1u32, 12, 13] {
                    m.push(DtOp::Cal(o, n));
                }
            }
            for (f, vals) in [(0usize, vec![-5i64, 1, 2023, 2028, 2030]), (1, vec![2, 3, 9, 12, 13]), (2, vec![28, 29, 30, 31]), (3, vec![60, 366])] {
                for v in vals {
                    m.push(DtOp::Set(f, v));
                }
            }
            m.push(DtOp::Clear(1));
            m.push(DtOp::Clear(2));
            for o in [0, 9_015] {
                m.push(DtOp::SetOff(o));
            }
        }
        DtMenu::Calendar => {
            for o in 0..4 {
                let ns: &[u32] = if o < 2 { &[1, 11, 12, 13, 25, 1_200, 4_799] } else { &[1, 3, 4, 100, 400] };
                for n in ns {
                    m.push(DtOp::Cal(o, *n));
                }
            }
            for (op, n) in [(0usize, 1u32), (1, 1), (0, 30), (1, 31), (0, 365), (1, 366)] {
                m.push(DtOp::Unit(op, n));
            }
            m.push(DtOp::Unit(2, 13));
            for o in [0, 3600, -3600] {
                m.push(DtOp::SetOff(o));
            }
        }
    }
    m
}

pub fn dt_inits(kind: DtMenu) -> Vec<(i64, u64, i32)> {
    let mut v = vec![];
    let days: Vec<i64> = vec![
        0, -1, -366, cal::days_from_civil(2024, 2, 29), cal::days_from_civil(2022, 5, 31), cal::days_from_civil(2023, 12, 31), cal::days_from_civil(1970, 1, 1), cal::days_from_civil(-4, 3, 1),
        cal::MIN_DAY + 3, cal::MAX_DAY - 3,
    ];
    let nods = [0u64, 1, 84_600_123_456_789, ab::DAY_NS - 1];
    if kind == DtMenu::Calendar || kind == DtMenu::Mixed {
        for (y, mo, d) in [(2024i64, 1u32, 31u32), (2024, 2, 29), (2023, 3, 31), (2023, 12, 31), (0, 2, 29), (-4, 2, 29), (0, 12, 31), (1, 1, 31), (-400, 2, 29), (1900, 1, 30), (2000, 8, 31), (5_879_610, 12, 31), (-5_879_609, 1, 31)] {
            for n in [0u64, 43_200_000_000_000] {
                v.push((cal::days_from_civil(y, mo, d), n, 0));
            }
        }
        return v;
    }
    let offs: &[i32] = if kind == DtMenu::Arithmetic { &[0, 3600] } else { &[0, 3600, -86_399] };
    for &d in &days {
        for &n in &nods {
            for &o in offs {
                v.push((d, n, o));
            }
        }
    }
    v
}

/// Run the DateTime value machine to `depth` and fold the result into the report.
pub fn run_datetime_machine(rep: &mut Report, depth: u8, kind: DtMenu) {
    let t0 = std::time::Instant::now();
    let transitions = Arc::new(AtomicU64::new(0));
    let expected_panics = Arc::new(AtomicU64::new(0));
    let make = || DtMachine { inits: dt_inits(kind), menu: dt_menu(kind), max_depth: depth, transitions: transitions.clone(), expected_panics: expected_panics.clone() };
    let checker = make().checker().threads(sr_threads(rep)).spawn_bfs().join();
    let unique = checker.unique_state_count() as u64;
    let n_trans = transitions.load(Ordering::Relaxed);
    let name = format!("E2:stateright DateTime machine ({}) depth {}", match kind { DtMenu::Arithmetic => "arithmetic", DtMenu::SetClear => "set/clear/offset", DtMenu::Calendar => "month/year/day arithmetic", DtMenu::Mixed => "month/year arithmetic interleaved with date setters" }, depth);
    let mut acc = Acc::default();
    acc.states = unique;
    acc.transitions = n_trans;
    acc.nontrivial = unique;
    acc.branch_n("machine-expected-panic-or-refusal", expected_panics.load(Ordering::Relaxed));
    let menu = dt_menu(kind);
    if let Some(path) = checker.discovery("real value agrees with the reference model") {
        let states = path.clone().into_states();
        let actions = path.into_actions();
        let init = &states[0];
        let (d, n) = ins::split(init.inst);
        let last = states.last().unwrap();
        let ops: Vec<Value> = actions.iter().map(|a| op_to_json(&menu[*a as usize])).collect();
        let last_op = actions.last().map(|a| describe(&menu[*a as usize])).unwrap_or_default();
        acc.violation(&last_op, &format!("machine-path-of-{}", actions.len()), json!({"kind": "machine", "init": [d, n.to_string(), init.off], "ops": ops}), "agreement with the reference model at every step".into(), last.bad.clone().unwrap_or_default());
    } else {
        acc.sample(json!({"op": "E2 machine", "inits": dt_inits(kind).len(), "menu": menu.len(), "depth": depth, "unique_states": unique, "transitions": n_trans}));
    }
    // determinism self-check: a second, single-threaded run must visit the same number of unique states
    if (rep.ctx.thorough && unique < 3_000_000) || unique < 150_000 {
        let before = transitions.load(Ordering::Relaxed);
        let c2 = make().checker().threads(1).spawn_bfs().join();
        if acc.classes.is_empty() && c2.unique_state_count() as u64 != unique {
            rep.machinery_errors.push(format!("{}: unique state count differs between runs ({} vs {})", name, unique, c2.unique_state_count()));
        }
        let _ = before;
    }
    rep.extra.insert(name.clone(), json!({"unique_states": unique, "transitions": n_trans, "max_depth": checker.max_depth(), "menu": menu.len(), "init_states": dt_inits(kind).len()}));
    rep.acc.merge(acc);
    rep.spaces.push(crate::engine::Space { name, size: unique, exhaustive: true, wall_s: t0.elapsed().as_secs_f64(), note: format!("BFS with state de-duplication (key: Debug rendering of the live value, model value, depth); {} transitions; all operation sequences up to the depth from {} initial states", n_trans, dt_inits(kind).len()) });
    eprintln!("[{} {}] E2 machine unique={} transitions={} {:.1}s", rep.ctx.prop, crate::engine::PROFILE, unique, n_trans, t0.elapsed().as_secs_f64());
}

/// Stateless re-execution of every operation sequence of the machine: each path is run from its
/// initial value to its end on one thread without anything in between. The BFS above keeps live
/// values in its states and expands them in any order on any thread, which is only sound for state
/// that lives *in the value*; state the implementation keeps elsewhere (a thread-local memo, a
/// scratch buffer) travels along a path only when the path is executed in one piece.
pub fn run_datetime_paths(rep: &mut Report, depth: u8, kind: DtMenu) {
    let menu = dt_menu(kind);
    let inits = dt_inits(kind);
    let m = menu.len() as u64;
    let per_init = m.pow(depth as u32);
    let total = inits.len() as u64 * per_init;
    let label = match kind { DtMenu::Arithmetic => "arithmetic", DtMenu::SetClear => "set/clear/offset", DtMenu::Calendar => "month/year/day arithmetic", DtMenu::Mixed => "month/year arithmetic interleaved with date setters" };
    let name = format!("E2:path re-execution, DateTime machine ({}) depth {}: {} initial values x {}^{} operation sequences", label, depth, inits.len(), m, depth);
    thread_local! {
        static PREVIOUS_PATH: RefCell<Value> = RefCell::new(Value::Null);
    }
    rep.sweep(&name, total, "every operation sequence executed from its initial value in one piece on one thread (carries hidden state along the path, and from the path executed just before on that thread, which a violation records as 'previous')", |i, acc| {
        let (d, n, o) = inits[(i / per_init) as usize];
        let mut k = i % per_init;
        let mut real = match dt_from_off(d, n, o) {
            Some(r) => r,
            None => return,
        };
        let (mut inst, mut off) = (ins::join(d, n), o);
        let mut ops: Vec<Value> = vec![];
        for _ in 0..depth {
            let op = &menu[(k % m) as usize];
            k /= m;
            let exp = dt_expect(inst, off, op);
            if matches!(exp, Expect::Skip) {
                return;
            }
            ops.push(op_to_json(op));
            acc.transitions += 1;
            let got = dt_apply(&real, op);
            let bad = match (exp, got) {
                (Expect::Panic, Out::Panic(_)) | (Expect::Refuse, Out::Err(_)) => {
                    acc.branch("path-ends-in-expected-panic-or-refusal");
                    PREVIOUS_PATH.with(|p| *p.borrow_mut() = json!({"init": [d, n.to_string(), o], "ops": ops}));
                    return;
                }
                (Expect::Value(ei, eo), Out::Val(v)) => {
                    let gi = dt_instant(&v);
                    let go = off_secs(v.get_offset());
                    if gi == Some(ei) && go == eo {
                        real = v;
                        inst = ei;
                        off = eo;
                        None
                    } else {
                        Some(format!("op {:?}: expected instant {} offset {}, observed instant {:?} offset {} ({:?})", op, ei, eo, gi, go, v))
                    }
                }
                (e, g) => Some(format!("op {:?}: expected {}, observed {}", op, match e { Expect::Panic => "panic".to_string(), Expect::Refuse => "Err(OutOfRange)".to_string(), Expect::Value(ei, eo) => format!("instant {} offset {}", ei, eo), Expect::Skip => String::new() }, g.show())),
            };
            if let Some(b) = bad {
                let previous = PREVIOUS_PATH.with(|p| p.borrow().clone());
                acc.violation(&describe(op), &format!("path-of-{}-executed-in-one-piece", ops.len()), json!({"kind": "machine", "init": [d, n.to_string(), o], "ops": ops, "previous": previous}), "agreement with the reference model at every step".into(), b);
                return;
            }
            PREVIOUS_PATH.with(|p| *p.borrow_mut() = json!({"init": [d, n.to_string(), o], "ops": ops}));
        }
        acc.states += 1;
        acc.branch("path-completed");
    });
}

/// Replay a recorded machine path without the explorer.
pub fn replay_datetime(case: &Value, acc: &mut Acc) {
    // the path executed just before on the same thread (recorded by the path re-execution sweep)
    if case["previous"].is_object() {
        let prev = &case["previous"];
        let pi = &prev["init"];
        if let Some(mut v) = dt_from_off(pi[0].as_i64().unwrap(), pi[1].as_str().unwrap().parse::<u64>().unwrap(), pi[2].as_i64().unwrap() as i32) {
            for opv in prev["ops"].as_array().unwrap() {
                match dt_apply(&v, &op_from_json(opv).unwrap()) {
                    Out::Val(n) => v = n,
                    _ => break,
                }
            }
        }
    }
    let init = &case["init"];
    let (d, n, o) = (init[0].as_i64().unwrap(), init[1].as_str().unwrap().parse::<u64>().unwrap(), init[2].as_i64().unwrap() as i32);
    let mut real = match dt_from_off(d, n, o) {
        Some(r) => r,
        None => return,
    };
    let (mut inst, mut off) = (ins::join(d, n), o);
    for (k, opv) in case["ops"].as_array().unwrap().iter().enumerate() {
        let op = op_from_json(opv).unwrap();
        let exp = dt_expect(inst, off, &op);
        let got = dt_apply(&real, &op);
        match (exp, got) {
            (Expect::Skip, _) => return,
            (Expect::Panic, Out::Panic(_)) | (Expect::Refuse, Out::Err(_)) => return,
            (Expect::Value(i, o2), Out::Val(v)) => {
                let gi = dt_instant(&v);
                let go = off_secs(v.get_offset());
                if gi != Some(i) || go != o2 {
                    acc.violation(&describe(&op), &format!("machine-step-{}", k), case.clone(), format!("instant {} offset {}", i, o2), format!("instant {:?} offset {} ({:?})", gi, go, v));
                    return;
                }
                real = v;
                inst = i;
                off = o2;
            }
            (e, g) => {
                let want = match e {
                    Expect::Panic => "panic".to_string(),
                    Expect::Refuse => "Err".to_string(),
                    Expect::Value(i, o2) => format!("instant {} offset {}", i, o2),
                    Expect::Skip => String::new(),
                };
                acc.violation(&describe(&op), &format!("machine-step-{}", k), case.clone(), want, g.show());
                return;
            }
        }
    }
}

// =====================================================================================
// Time value machine (C08)
// =====================================================================================

#[derive(Clone, Debug, PartialEq)]
pub enum TmOp {
    Unit(usize, u32), // op: (unit-1)*2 + sub, units hours..nanos
    Tim(bool, u64),
    Dur(bool, u64, u32),
    SetOff(i32),
    AsOff(i32),
}

#[derive(Clone, Debug)]
pub struct TmState {
    pub real: Time,
    pub nanos: u64,
    pub off: i32,
    pub bad: Option<String>,
    pub depth: u8,
}
impl PartialEq for TmState {
    fn eq(&self, o: &Self) -> bool {
        format!("{:?}", self.real) == format!("{:?}", o.real) && self.nanos == o.nanos && self.off == o.off && self.bad.is_some() == o.bad.is_some() && self.depth == o.depth
    }
}
impl Eq for TmState {}
impl Hash for TmState {
    fn hash<H: Hasher>(&self, h: &mut H) {
        format!("{:?}", self.real).hash(h);
        self.nanos.hash(h);
        self.off.hash(h);
        self.bad.is_some().hash(h);
        self.depth.hash(h);
    }
}

pub fn tm_apply_unit(t: &Time, op: usize, n: u32) -> Time {
    match op {
        0 => t.add_hours(n),
        1 => t.sub_hours(n),
        2 => t.add_minutes(n),
        3 => t.sub_minutes(n),
        4 => t.add_seconds(n),
        5 => t.sub_seconds(n),
        6 => t.add_millis(n),
        7 => t.sub_millis(n),
        8 => t.add_micros(n),
        9 => t.sub_micros(n),
        10 => t.add_nanos(n),
        _ => t.sub_nanos(n),
    }
}

pub fn tm_apply(t: &Time, op: &TmOp) -> Out<Time> {
    match op {
        TmOp::Unit(o, n) => call(|| tm_apply_unit(t, *o, *n)),
        TmOp::Tim(sub, n) => {
            let r = Time::from_nanos(*n).unwrap();
            call(|| if *sub { *t - r } else { *t + r })
        }
        TmOp::Dur(sub, s, ns) => {
            let d = Duration::new(*s, *ns);
            call(|| if *sub { *t - d } else { *t + d })
        }
        TmOp::SetOff(o) => call(|| t.set_offset(Offset::Fixed(*o))),
        TmOp::AsOff(o) => call(|| t.as_offset(Offset::Fixed(*o))),
    }
}

/// the compound-assignment form of an operator op (None for the other operations)
pub fn tm_apply_assign(t: &Time, op: &TmOp) -> Option<Out<Time>> {
    match op {
        TmOp::Tim(sub, n) => {
            let r = Time::from_nanos(*n).unwrap();
            Some(call(|| {
                let mut x = *t;
                if *sub {
                    x -= r;
                } else {
                    x += r;
                }
                x
            }))
        }
        TmOp::Dur(sub, s, ns) => {
            let d = Duration::new(*s, *ns);
            Some(call(|| {
                let mut x = *t;
                if *sub {
                    x -= d;
                } else {
                    x += d;
                }
                x
            }))
        }
        _ => None,
    }
}

pub fn tm_expect(nanos: u64, off: i32, op: &TmOp) -> (u64, i32) {
    let day = ab::DAY_NS as i128;
    let m = |x: i128| x.rem_euclid(day) as u64;
    match op {
        TmOp::Unit(o, n) => {
            let d = *n as i128 * crate::props::c04::UNITS[o / 2 + 1].1;
            (m(if o % 2 == 0 { nanos as i128 + d } else { nanos as i128 - d }), off)
        }
        TmOp::Tim(sub, n) => (m(if *sub { nanos as i128 - *n as i128 } else { nanos as i128 + *n as i128 }), off),
        TmOp::Dur(sub, s, ns) => {
            let d = (*s as i128 * ins::NS + *ns as i128).rem_euclid(day);
            (m(if *sub { nanos as i128 - d } else { nanos as i128 + d }), off)
        }
        TmOp::SetOff(o) => (nanos, *o),
        TmOp::AsOff(o) => (m(nanos as i128 - *o as i128 * ins::NS), *o),
    }
}

pub fn tm_op_name(op: &TmOp) -> String {
    match op {
        TmOp::Unit(o, _) => format!("Time::{}_{}", if o % 2 == 0 { "add" } else { "sub" }, crate::props::c04::UNITS[o / 2 + 1].0),
        TmOp::Tim(s, _) => format!("Time {} Time", if *s { "-" } else { "+" }),
        TmOp::Dur(s, _, _) => format!("Time {} Duration", if *s { "-" } else { "+" }),
        TmOp::SetOff(_) => "Time::set_offset".into(),
        TmOp::AsOff(_) => "Time::as_offset".into(),
    }
}

/// Judge one real result against (expected nanos, expected offset); returns a description when wrong.
pub fn tm_judge(got: &Out<Time>, exp: (u64, i32)) -> Option<String> {
    tm_judge_opt(got, exp, true)
}

/// `display`: also compare the rendered fields (allocates; sweeps do it on a 1/16 lattice)
pub fn tm_judge_opt(got: &Out<Time>, exp: (u64, i32), display: bool) -> Option<String> {
    match got {
        Out::Val(v) => {
            let n = v.as_nanos();
            let o = off_secs(v.get_offset());
            if n >= ab::DAY_NS {
                return Some(format!("as_nanos() = {} is not below one day ({:?})", n, v));
            }
            if n != exp.0 || o != exp.1 {
                return Some(format!("nanos {} offset {} ({:?})", n, o, v));
            }
            // one canonical value per time of day: equal to the freshly constructed time, same display
            let fresh = Time::from_nanos(exp.0).unwrap();
            if *v != fresh || (display && v.set_offset(Offset::Fixed(0)).format("HH:mm:ss.nnnnn") != fresh.format("HH:mm:ss.nnnnn")) {
                return Some(format!("not equal to / displayed differently from from_nanos({}) ({:?})", exp.0, v));
            }
            None
        }
        other => Some(other.show()),
    }
}

pub struct TmMachine {
    pub inits: Vec<(u64, i32)>,
    pub menu: Vec<TmOp>,
    pub max_depth: u8,
    pub transitions: Arc<AtomicU64>,
}

impl Model for TmMachine {
    type State = TmState;
    type Action = u16;
    fn init_states(&self) -> Vec<TmState> {
        self.inits.iter().map(|&(n, o)| TmState { real: crate::real::time_from(n, o).unwrap(), nanos: n, off: o, bad: None, depth: 0 }).collect()
    }
    fn actions(&self, s: &TmState, actions: &mut Vec<u16>) {
        if s.bad.is_none() && s.depth < self.max_depth {
            actions.extend(0..self.menu.len() as u16);
        }
    }
    fn next_state(&self, s: &TmState, a: u16) -> Option<TmState> {
        PIN.with(|_| ());
        let op = &self.menu[a as usize];
        self.transitions.fetch_add(1, Ordering::Relaxed);
        let exp = tm_expect(s.nanos, s.off, op);
        let got = tm_apply(&s.real, op);
        let bad = tm_judge(&got, exp).map(|d| format!("op {:?}: expected nanos {} offset {}, observed {}", op, exp.0, exp.1, d));
        let real = match got {
            Out::Val(v) => v,
            _ => s.real,
        };
        Some(TmState { real, nanos: exp.0, off: exp.1, bad, depth: s.depth + 1 })
    }
    fn properties(&self) -> Vec<Property<Self>> {
        vec![Property::always("Time stays canonical and agrees with modular arithmetic", |_, s: &TmState| s.bad.is_none())]
    }
}

pub fn tm_menu() -> Vec<TmOp> {
    let mut m = vec![];
    for op in 0..12 {
        for n in [1u32, 23, 24, 25, 5_124_096, u32::MAX] {
            m.push(TmOp::Unit(op, n));
        }
    }
    for sub in [false, true] {
        for n in [1u64, 82_800_000_000_000, ab::DAY_NS - 1] {
            m.push(TmOp::Tim(sub, n));
        }
        for (s, ns) in [(0u64, 1u32), (90_000, 0), (86_400, 0), (u64::MAX, 999_999_999)] {
            m.push(TmOp::Dur(sub, s, ns));
        }
    }
    for o in [0, 3600, -86_399] {
        m.push(TmOp::SetOff(o));
    }
    for o in [3600, -86_399] {
        m.push(TmOp::AsOff(o));
    }
    m
}

pub fn tm_op_to_json(op: &TmOp) -> Value {
    match op {
        TmOp::Unit(o, n) => json!({"t": "unit", "op": o, "n": n}),
        TmOp::Tim(s, n) => json!({"t": "time", "sub": s, "nanos": n.to_string()}),
        TmOp::Dur(s, a, b) => json!({"t": "dur", "sub": s, "secs": a.to_string(), "ns": b}),
        TmOp::SetOff(o) => json!({"t": "set_offset", "off": o}),
        TmOp::AsOff(o) => json!({"t": "as_offset", "off": o}),
    }
}

pub fn tm_op_from_json(v: &Value) -> Option<TmOp> {
    Some(match v["t"].as_str()? {
        "unit" => TmOp::Unit(v["op"].as_u64()? as usize, v["n"].as_u64()? as u32),
        "time" => TmOp::Tim(v["sub"].as_bool()?, v["nanos"].as_str()?.parse().ok()?),
        "dur" => TmOp::Dur(v["sub"].as_bool()?, v["secs"].as_str()?.parse().ok()?, v["ns"].as_u64()? as u32),
        "set_offset" => TmOp::SetOff(v["off"].as_i64()? as i32),
        "as_offset" => TmOp::AsOff(v["off"].as_i64()? as i32),
        _ => return None,
    })
}

pub fn run_time_machine(rep: &mut Report, depth: u8) {
    let t0 = std::time::Instant::now();
    let transitions = Arc::new(AtomicU64::new(0));
    let inits: Vec<(u64, i32)> = {
        let mut v = vec![];
        for n in [0u64, 1, 43_200_000_000_000, 82_800_000_000_000, ab::DAY_NS - 1] {
            for o in [0, 3600] {
                v.push((n, o));
            }
        }
        v
    };
    let make = || TmMachine { inits: inits.clone(), menu: tm_menu(), max_depth: depth, transitions: transitions.clone() };
    let checker = make().checker().threads(sr_threads(rep)).spawn_bfs().join();
    let unique = checker.unique_state_count() as u64;
    let n_trans = transitions.load(Ordering::Relaxed);
    let name = format!("E2:stateright Time machine depth {}", depth);
    let mut acc = Acc::default();
    acc.states = unique;
    acc.transitions = n_trans;
    acc.nontrivial = unique;
    let menu = tm_menu();
    if let Some(path) = checker.discovery("Time stays canonical and agrees with modular arithmetic") {
        let states = path.clone().into_states();
        let actions = path.into_actions();
        let init = &states[0];
        let ops: Vec<Value> = actions.iter().map(|a| tm_op_to_json(&menu[*a as usize])).collect();
        let last_op = actions.last().map(|a| tm_op_name(&menu[*a as usize])).unwrap_or_default();
        acc.violation(&last_op, &format!("machine-path-of-{}", actions.len()), json!({"kind": "machine", "init": [init.nanos.to_string(), init.off], "ops": ops}), "canonical value agreeing with modular arithmetic at every step".into(), states.last().unwrap().bad.clone().unwrap_or_default());
    } else {
        acc.sample(json!({"op": "E2 Time machine", "inits": inits.len(), "menu": menu.len(), "depth": depth, "unique_states": unique, "transitions": n_trans}));
        if (rep.ctx.thorough && unique < 3_000_000) || unique < 150_000 {
            let c2 = make().checker().threads(1).spawn_bfs().join();
            if c2.unique_state_count() as u64 != unique {
                rep.machinery_errors.push(format!("{}: unique state count differs between runs ({} vs {})", name, unique, c2.unique_state_count()));
            }
        }
    }
    rep.extra.insert(name.clone(), json!({"unique_states": unique, "transitions": n_trans, "max_depth": checker.max_depth(), "menu": menu.len(), "init_states": inits.len()}));
    rep.acc.merge(acc);
    rep.spaces.push(crate::engine::Space { name, size: unique, exhaustive: true, wall_s: t0.elapsed().as_secs_f64(), note: format!("BFS with de-duplication; {} transitions; every operation sequence up to the depth; invariant on every reached state: as_nanos() < one day, equals the canonical value", n_trans) });
    eprintln!("[{} {}] E2 Time machine unique={} transitions={} {:.1}s", rep.ctx.prop, crate::engine::PROFILE, unique, n_trans, t0.elapsed().as_secs_f64());
}

/// Stateless re-execution of every operation sequence of the Time machine (see run_datetime_paths)
pub fn run_time_paths(rep: &mut Report, depth: u8) {
    let menu = tm_menu();
    let mut inits: Vec<(u64, i32)> = vec![];
    for n in [0u64, 1, 43_200_000_000_000, 82_800_000_000_000, ab::DAY_NS - 1] {
        for o in [0, 3600] {
            inits.push((n, o));
        }
    }
    let m = menu.len() as u64;
    let per_init = m.pow(depth as u32);
    thread_local! {
        static PREVIOUS_PATH: RefCell<Value> = RefCell::new(Value::Null);
    }
    rep.sweep(&format!("E2:path re-execution, Time machine depth {}: {} initial values x {}^{} operation sequences", depth, inits.len(), m, depth), inits.len() as u64 * per_init, "every operation sequence executed from its initial value in one piece on one thread", |i, acc| {
        let (n, o) = inits[(i / per_init) as usize];
        let mut k = i % per_init;
        let mut real = crate::real::time_from(n, o).unwrap();
        let (mut nanos, mut off) = (n, o);
        let mut ops: Vec<Value> = vec![];
        for _ in 0..depth {
            let op = &menu[(k % m) as usize];
            k /= m;
            ops.push(tm_op_to_json(op));
            acc.transitions += 1;
            let exp = tm_expect(nanos, off, op);
            let got = tm_apply(&real, op);
            if let Some(d) = tm_judge(&got, exp) {
                let previous = PREVIOUS_PATH.with(|p| p.borrow().clone());
                acc.violation(&tm_op_name(op), &format!("path-of-{}-executed-in-one-piece", ops.len()), json!({"kind": "machine", "init": [n.to_string(), o], "ops": ops, "previous": previous}), format!("nanos {} offset {}", exp.0, exp.1), d);
                return;
            }
            if let Out::Val(v) = got {
                real = v;
            }
            nanos = exp.0;
            off = exp.1;
        }
        PREVIOUS_PATH.with(|p| *p.borrow_mut() = json!({"init": [n.to_string(), o], "ops": ops}));
        acc.states += 1;
        acc.branch("path-completed");
    });
}

pub fn replay_time(case: &Value, acc: &mut Acc) {
    if case["previous"].is_object() {
        let prev = &case["previous"];
        if let Some(mut v) = crate::real::time_from(prev["init"][0].as_str().unwrap().parse::<u64>().unwrap(), prev["init"][1].as_i64().unwrap() as i32) {
            for opv in prev["ops"].as_array().unwrap() {
                if let Out::Val(nv) = tm_apply(&v, &tm_op_from_json(opv).unwrap()) {
                    v = nv;
                }
            }
        }
    }
    let init = &case["init"];
    let (n, o) = (init[0].as_str().unwrap().parse::<u64>().unwrap(), init[1].as_i64().unwrap() as i32);
    let mut real = crate::real::time_from(n, o).unwrap();
    let (mut nanos, mut off) = (n, o);
    for (k, opv) in case["ops"].as_array().unwrap().iter().enumerate() {
        let op = tm_op_from_json(opv).unwrap();
        let exp = tm_expect(nanos, off, &op);
        let got = tm_apply(&real, &op);
        if let Some(d) = tm_judge(&got, exp) {
            acc.violation(&tm_op_name(&op), &format!("machine-step-{}", k), case.clone(), format!("nanos {} offset {}", exp.0, exp.1), d);
            return;
        }
        if let Out::Val(v) = got {
            real = v;
        }
        nanos = exp.0;
        off = exp.1;
    }
}

/// stateright worker threads: transitions here are cheap (sub-microsecond), so more than a few
/// workers only contend on the shared frontier; MC_SR_THREADS overrides.
fn sr_threads(rep: &Report) -> usize {
    std::env::var("MC_SR_THREADS").ok().and_then(|v| v.parse().ok()).unwrap_or_else(|| rep.ctx.threads.min(8))
}
