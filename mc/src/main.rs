//! mc — bounded exhaustive exploration of astrolabe against reference models.
//! Usage: mc <Cxx> quick|thorough --out <result.json> [--replays <dir>] [--seed N] [--threads N]
//!        mc replay <file.json>
mod alphabets;
mod engine;
mod machine;
mod props;
mod real;
mod supervisor;
mod refmodel;

use engine::{Acc, Ctx};
use std::time::Instant;

fn main() {
    let args: Vec<String> = std::env::args().collect();
    if args.len() < 3 {
        eprintln!("usage: mc <Cxx> quick|thorough --out <file> | mc replay <file>");
        std::process::exit(2);
    }
    engine::silence_panics();
    if args[1] == "tzref-dump" {
        // reference-model offsets for the corpus, for the CPython cross-check (tools/tz_crosscheck.py)
        use std::io::Write;
        let mut out = std::io::BufWriter::new(std::fs::File::create(&args[2]).expect("create dump"));
        let mut n = 0u64;
        for (name, bytes) in props::c18::load_corpus() {
            if let Some(z) = refmodel::tzif::read_tzif(&bytes) {
                for t in props::c18::probes(&z, false) {
                    if let Some(o) = refmodel::tzif::offset_at(&z, t) {
                        writeln!(out, "{}\t{}\t{}", name, t, o).unwrap();
                        n += 1;
                    }
                }
            }
        }
        // and for the synthesised footers (table-free v2/v3 file per footer), written next to the dump
        if let Some(dir) = args.get(3) {
            std::fs::create_dir_all(dir).expect("create synth dir");
            for (i, (text, v3)) in props::c18::footers(false).into_iter().enumerate() {
                if let Some(z) = props::c18::synth_zones(&text, v3).into_iter().find(|z| z.version != 1 && z.transitions.is_empty()) {
                    let name = format!("synth-{}", i);
                    std::fs::write(format!("{}/{}", dir, name), refmodel::tzif::write_tzif(&z)).expect("write synth file");
                    for t in props::c18::probes(&z, false) {
                        if let Some(o) = refmodel::tzif::offset_at(&z, t) {
                            writeln!(out, "@{}\t{}\t{}", name, t, o).unwrap();
                            n += 1;
                        }
                    }
                }
            }
        }
        out.flush().expect("flush dump");
        drop(out);
        println!("dumped {} lookups", n);
        std::process::exit(0);
    }
    if args[1] == "replay" {
        let text = std::fs::read_to_string(&args[2]).expect("read replay file");
        let v: serde_json::Value = serde_json::from_str(&text).expect("parse replay file");
        let prop = v["property"].as_str().unwrap_or("").to_string();
        let op = v["op"].as_str().unwrap_or("").to_string();
        let mut runs = vec![];
        for _ in 0..2 {
            let mut acc = Acc::default();
            if !props::replay(&prop, &op, &v["case"], &mut acc) {
                eprintln!("replay: unknown op {} for {}", op, prop);
                std::process::exit(2);
            }
            let obs: Vec<String> = acc
                .classes
                .values()
                .flat_map(|(_, ex)| ex.iter().map(|x| format!("{}::{} expected={} observed={}", x.op, x.class, x.expected, x.observed)))
                .collect();
            runs.push(obs);
        }
        if runs[0] != runs[1] {
            eprintln!("replay: NONDETERMINISTIC observations: {:?} vs {:?}", runs[0], runs[1]);
            std::process::exit(2);
        }
        println!("replay property={} op={} profile={} case={}", prop, op, engine::PROFILE, v["case"]);
        if runs[0].is_empty() {
            println!("replay: PASS (no violation on this tree)");
            std::process::exit(0);
        }
        for o in &runs[0] {
            println!("replay: FAIL {}", o);
        }
        println!("VIOLATION property={} replay={}", prop, args[2]);
        std::process::exit(1);
    }
    let mut ctx = Ctx {
        prop: args[1].clone(),
        thorough: args[2] == "thorough",
        seed: 0,
        out: String::new(),
        replay_dir: "/verif/replays".into(),
        threads: std::thread::available_parallelism().map(|n| n.get()).unwrap_or(4),
        started: Instant::now(),
        hb_dir: std::env::var("MC_HB_DIR").ok(),
        trace: std::env::var("MC_TRACE").ok().and_then(|t| {
            let p: Vec<&str> = t.split('\t').collect();
            if p.len() == 3 { Some((p[0].to_string(), p[1].parse().ok()?, p[2].parse().ok()?)) } else { None }
        }),
    };
    let mut i = 3;
    while i + 1 < args.len() {
        match args[i].as_str() {
            "--out" => ctx.out = args[i + 1].clone(),
            "--replays" => ctx.replay_dir = args[i + 1].clone(),
            "--seed" => ctx.seed = args[i + 1].parse().unwrap_or(0),
            "--threads" => ctx.threads = args[i + 1].parse().unwrap_or(ctx.threads),
            _ => {}
        }
        i += 2;
    }
    if ctx.out.is_empty() {
        ctx.out = format!("/tmp/mc-{}-{}.json", ctx.prop, engine::PROFILE);
    }
    // E3 properties run under a supervisor so that an abort, a stack overflow or a hang of the
    // subject is a verdict with a replayable case and not a dead harness
    if ["C14", "C16", "C17", "C19"].contains(&ctx.prop.as_str()) && std::env::var("MC_CHILD").is_err() {
        std::process::exit(supervisor::supervise(&ctx, &args));
    }
    let code = props::run(&ctx);
    std::process::exit(code);
}
