//! Helpers to build and read real astrolabe values through the public API only.
use crate::engine::{call, Out};
use crate::refmodel::calendar as cal;
use astrolabe::{Date, DateTime, DateUtilities, Offset, OffsetUtilities, Time, TimeUtilities};

pub const NS: i128 = 1_000_000_000;

/// in-range values that could not be built / did not read back (C03 judges this; other checks only count it)
pub static CONSTRUCT_FAILED: std::sync::atomic::AtomicU64 = std::sync::atomic::AtomicU64::new(0);

pub fn date_from_day(day: i64) -> Out<Date> {
    call(|| Date::from_timestamp((day - cal::DAYS_TO_1970) * 86_400))
}

/// day number of a Date (via timestamp(), bound to the model by C03)
pub fn date_day(d: &Date) -> i64 {
    d.timestamp().div_euclid(86_400) + cal::DAYS_TO_1970
}

/// Build a DateTime for (day number, nanoseconds of day) at offset 0 and read it back.
pub fn dt_from(day: i64, nanos: u64) -> Option<DateTime> {
    let secs = (day - cal::DAYS_TO_1970) * 86_400 + (nanos / 1_000_000_000) as i64;
    let sub = (nanos % 1_000_000_000) as u32;
    let built = match call(|| DateTime::from_timestamp(secs).set_nano(sub)) {
        Out::Val(Ok(dt)) => {
            if dt_instant(&dt) == Some(day as i128 * cal::NANOS_PER_DAY + nanos as i128) {
                Some(dt)
            } else {
                None
            }
        }
        _ => None,
    };
    if built.is_none() && (cal::MIN_DAY..=cal::MAX_DAY).contains(&day) && nanos < 86_400_000_000_000 {
        CONSTRUCT_FAILED.fetch_add(1, std::sync::atomic::Ordering::Relaxed);
    }
    built
}

pub fn dt_from_off(day: i64, nanos: u64, off: i32) -> Option<DateTime> {
    let dt = dt_from(day, nanos)?;
    if off == 0 {
        return Some(dt);
    }
    match call(|| dt.set_offset(Offset::Fixed(off))) {
        Out::Val(v) => Some(v),
        _ => None,
    }
}

/// instant of a DateTime in nanoseconds since 0001-01-01T00:00Z, read through timestamp() and nano()
/// after moving the value to offset 0 (which never changes the instant, C10)
pub fn dt_instant(dt: &DateTime) -> Option<i128> {
    match call(|| {
        let z = dt.set_offset(Offset::Fixed(0));
        (z.timestamp(), z.nano())
    }) {
        Out::Val((ts, ns)) => Some((ts as i128 + cal::DAYS_TO_1970 as i128 * 86_400) * NS + ns as i128),
        _ => None,
    }
}

pub fn off_secs(o: Offset) -> i32 {
    match o {
        Offset::Fixed(s) => s,
        Offset::Local => i32::MIN,
    }
}

pub fn time_from(nanos: u64, off: i32) -> Option<Time> {
    let t = Time::from_nanos(nanos).ok()?;
    Some(if off == 0 { t } else { t.set_offset(Offset::Fixed(off)) })
}
