//! Deterministic boundary alphabets (DESIGN.md §4). All derived from constants of the subject.
use crate::refmodel::calendar as cal;

pub const DAY_NS: u64 = 86_400_000_000_000;

/// landmark display years L
pub fn landmark_years() -> Vec<i64> {
    let mut v = vec![
        -5_879_611, -5_879_610, -401, -400, -101, -100, -5, -4, -2, -1, 1, 2, 4, 5, 100, 101, 400, 401, 1582, 1600,
        1900, 1969, 1970, 1972, 1999, 2000, 2001, 2022, 2023, 2024, 2038, 2100, 2400, 9999, 10000, 5_879_610,
        5_879_611,
    ];
    v.sort();
    v
}

fn push_valid(v: &mut Vec<i64>, y: i64, m: u32, d: u32) {
    if let Some(day) = cal::valid_day(y, m, d) {
        v.push(day);
    }
}

/// DIST_B: distances in days taken from the constants of the conversion code (epoch shifts and cycle
/// lengths), both signs: a value is also examined right after a value this far away, because the
/// functions are pure and their answer must not depend on what was asked before
pub fn dist_b() -> Vec<i64> {
    let mut v = vec![];
    for d in [1i64, 7, 365, 366, 1_461, 36_524, 146_097, 719_162, 719_468, 730_179] {
        v.push(d);
        v.push(-d);
    }
    v
}

/// DAYS_B: ~600 landmark day numbers
pub fn days_b() -> Vec<i64> {
    let mut v = vec![];
    for y in landmark_years() {
        let a = cal::astro(y).unwrap();
        push_valid(&mut v, y, 1, 1);
        push_valid(&mut v, y, 1, 31);
        push_valid(&mut v, y, 2, 28);
        push_valid(&mut v, y, 2, 29);
        push_valid(&mut v, y, 3, 1);
        for m in 1..=12 {
            push_valid(&mut v, y, m, cal::month_len(a, m));
        }
        push_valid(&mut v, y, 12, 31);
    }
    v.extend([cal::MIN_DAY, cal::MIN_DAY + 1, -1, 0, 1, cal::MAX_DAY - 1, cal::MAX_DAY]);
    let pivot = cal::days_from_civil(2000, 3, 1);
    v.extend([pivot - 1, pivot, pivot + 1]);
    v.sort();
    v.dedup();
    v
}

/// DAYS_B': ~70-day subset used where days are multiplied with several other alphabets
pub fn days_b_small() -> Vec<i64> {
    let mut v = vec![];
    for y in [-5_879_611i64, -401, -5, -4, -1, 1, 4, 1900, 1970, 2000, 2024, 9999, 5_879_611] {
        push_valid(&mut v, y, 1, 1);
        push_valid(&mut v, y, 2, 28);
        push_valid(&mut v, y, 2, 29);
        push_valid(&mut v, y, 3, 1);
        push_valid(&mut v, y, 12, 31);
    }
    v.extend([cal::MIN_DAY, cal::MIN_DAY + 1, -1, 0, 1, cal::MAX_DAY - 1, cal::MAX_DAY]);
    v.sort();
    v.dedup();
    v
}

/// WINDOWS: contiguous display-year ranges, as inclusive day ranges (clipped to the representable range)
pub fn windows() -> Vec<(i64, i64)> {
    let yr = |y: i64, first: bool| -> i64 {
        let a = cal::astro(y).unwrap();
        let d = if first { cal::days_from_civil(a, 1, 1) } else { cal::days_from_civil(a, 12, 31) };
        d.clamp(cal::MIN_DAY, cal::MAX_DAY)
    };
    vec![
        (yr(-6, true), yr(6, false)),
        (yr(1896, true), yr(1905, false)),
        (yr(1996, true), yr(2005, false)),
        (yr(2016, true), yr(2025, false)),
        (yr(2096, true), yr(2101, false)),
        (cal::MIN_DAY, yr(-5_879_609, false)),
        (yr(5_879_609, true), cal::MAX_DAY),
    ]
}

pub fn window_days() -> Vec<i64> {
    let mut v = vec![];
    for (lo, hi) in windows() {
        v.extend(lo..=hi);
    }
    v
}

/// NANOS_B: boundary nanoseconds within a day
pub fn nanos_b() -> Vec<u64> {
    let s = 1_000_000_000u64;
    let mut v = vec![
        0, 1, 999, 1000, 999_999, 1_000_000, s - 1, s, 60 * s - 1, 60 * s, 60 * s + 1, 3600 * s - 1, 3600 * s,
        3600 * s + 1, 43_200 * s - 1, 43_200 * s, 43_200 * s + 1, 86_399 * s, DAY_NS - s, DAY_NS - 1,
    ];
    v.sort();
    v.dedup();
    v
}

pub fn offs_b() -> Vec<i32> {
    let mut v = vec![0];
    for o in [1, 59, 60, 61, 1800, 3599, 3600, 3601, 19_800, 28_378, 43_200, 86_340, 86_399] {
        v.push(o);
        v.push(-o);
    }
    v.sort();
    v
}

pub fn counts_b() -> Vec<u32> {
    let mut v: Vec<u64> = vec![
        0, 1, 2, 3, 11, 12, 13, 23, 24, 25, 59, 60, 61, 99, 100, 101, 365, 366, 999, 1000, 1001, 1439, 1440, 1441, 3599,
        3600, 3601, 86_399, 86_400, 86_401, 999_999, 1_000_000, 1_000_001, 999_999_999, 1_000_000_000, 1_000_000_001,
        65_535, 65_536, 65_537, 1 << 24,
    ];
    for k in [3_600_000_000_000u128, 60_000_000_000, 1_000_000_000, 1_000_000, 1_000] {
        for p in [1u128 << 63, 1u128 << 64] {
            let t = p / k;
            if t + 1 <= u32::MAX as u128 {
                v.push(t as u64);
                v.push(t as u64 + 1);
            }
        }
    }
    v.extend([(1u64 << 31) - 1, 1 << 31, (1 << 31) + 1, (1u64 << 32) - 2, (1u64 << 32) - 1]);
    let mut v: Vec<u32> = v.into_iter().filter(|&x| x <= u32::MAX as u64).map(|x| x as u32).collect();
    v.sort();
    v.dedup();
    v
}

/// U32_B(max): boundary values for a field whose maximum is `max`; `mult` is the multiplier later
/// applied to the field (wrap-back values ⌈2^32/mult⌉ + j)
pub fn u32_b(max: u32, mult: u32) -> Vec<u32> {
    let mut v: Vec<u64> = vec![0, 1, max as u64 - 1, max as u64, max as u64 + 1, max as u64 + 2, (1 << 31) - 1, 1 << 31, (1u64 << 32) - 1];
    if mult > 1 {
        let w = ((1u64 << 32) + mult as u64 - 1) / mult as u64;
        for j in 0..3 {
            v.push(w + j);
        }
    }
    let mut v: Vec<u32> = v.into_iter().filter(|&x| x <= u32::MAX as u64).map(|x| x as u32).collect();
    v.sort();
    v.dedup();
    v
}
