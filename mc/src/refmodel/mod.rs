pub mod calendar;
pub mod fields;
pub mod instant;
