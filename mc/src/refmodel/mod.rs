pub mod calendar;
