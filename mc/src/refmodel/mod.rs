pub mod calendar;
pub mod fields;
pub mod format;
pub mod instant;
pub mod cron;
pub mod tzif;
