//! Reference RFC 8536 (TZif v1-v3) reader, POSIX-TZ footer parser and rule evaluator, plus a
//! TZif writer used to synthesise well-formed files. Independent of src/local/.
use super::calendar as cal;

#[derive(Clone, Debug, PartialEq)]
pub enum RuleDay {
    /// Jn: 1..=365, 29 February never counted
    J(u32),
    /// n: 0..=365, 29 February counted
    N(u32),
    /// Mm.w.d
    M(u32, u32, u32),
}

#[derive(Clone, Debug, PartialEq)]
pub enum Rule {
    Fixed(i32),
    Alt { std: i32, dst: i32, start: RuleDay, start_time: i64, end: RuleDay, end_time: i64 },
}

#[derive(Clone, Debug)]
pub struct Zone {
    pub version: u8,
    pub transitions: Vec<(i64, usize)>,
    pub types: Vec<(i32, bool, u8)>,
    pub footer: Option<Rule>,
    pub footer_text: String,
    /// number of leap-second records to write (the reader skips them)
    pub leaps: u32,
    /// write standard/wall and UT/local indicators (one per type)
    pub indicators: bool,
}

// ------------------------------------------------------------------ POSIX TZ string

struct P<'a> {
    s: &'a [u8],
    i: usize,
}

impl<'a> P<'a> {
    fn peek(&self) -> Option<u8> {
        self.s.get(self.i).copied()
    }
    fn eat(&mut self, c: u8) -> bool {
        if self.peek() == Some(c) {
            self.i += 1;
            true
        } else {
            false
        }
    }
    fn num(&mut self) -> Option<i64> {
        let st = self.i;
        while matches!(self.peek(), Some(b'0'..=b'9')) {
            self.i += 1;
        }
        if st == self.i || self.i - st > 9 {
            return None;
        }
        std::str::from_utf8(&self.s[st..self.i]).ok()?.parse().ok()
    }
    fn name(&mut self) -> Option<()> {
        if self.eat(b'<') {
            let st = self.i;
            while matches!(self.peek(), Some(c) if c.is_ascii_alphanumeric() || c == b'+' || c == b'-') {
                self.i += 1;
            }
            if self.i - st < 3 || !self.eat(b'>') {
                return None;
            }
        } else {
            let st = self.i;
            while matches!(self.peek(), Some(c) if c.is_ascii_alphabetic()) {
                self.i += 1;
            }
            if self.i - st < 3 {
                return None;
            }
        }
        Some(())
    }
    /// [+|-]hh[:mm[:ss]] in seconds
    fn hms(&mut self, max_hour: i64) -> Option<i64> {
        let neg = if self.eat(b'-') {
            true
        } else {
            self.eat(b'+');
            false
        };
        let h = self.num()?;
        let (mut m, mut s) = (0, 0);
        if self.eat(b':') {
            m = self.num()?;
            if self.eat(b':') {
                s = self.num()?;
            }
        }
        if h > max_hour || m > 59 || s > 59 {
            return None;
        }
        let v = h * 3600 + m * 60 + s;
        Some(if neg { -v } else { v })
    }
    fn rule(&mut self, v3: bool) -> Option<(RuleDay, i64)> {
        let day = if self.eat(b'J') {
            let n = self.num()?;
            if !(1..=365).contains(&n) {
                return None;
            }
            RuleDay::J(n as u32)
        } else if self.eat(b'M') {
            let m = self.num()?;
            if !self.eat(b'.') {
                return None;
            }
            let w = self.num()?;
            if !self.eat(b'.') {
                return None;
            }
            let d = self.num()?;
            if !(1..=12).contains(&m) || !(1..=5).contains(&w) || !(0..=6).contains(&d) {
                return None;
            }
            RuleDay::M(m as u32, w as u32, d as u32)
        } else {
            let n = self.num()?;
            if n > 365 {
                return None;
            }
            RuleDay::N(n as u32)
        };
        let time = if self.eat(b'/') {
            if v3 {
                self.hms(167)?
            } else {
                let t = self.hms(24)?;
                if t < 0 {
                    return None;
                }
                t
            }
        } else {
            7200
        };
        Some((day, time))
    }
}

/// Parse a well-formed POSIX TZ string (as found in TZif footers). None = not well-formed.
pub fn parse_posix_tz(s: &str, v3: bool) -> Option<Rule> {
    let mut p = P { s: s.as_bytes(), i: 0 };
    p.name()?;
    let std_off = p.hms(24)?;
    if p.i == p.s.len() {
        return Some(Rule::Fixed(-(std_off as i32)));
    }
    p.name()?;
    let dst_off = if p.peek() == Some(b',') { std_off - 3600 } else { p.hms(24)? };
    if !p.eat(b',') {
        return None;
    }
    let (start, start_time) = p.rule(v3)?;
    if !p.eat(b',') {
        return None;
    }
    let (end, end_time) = p.rule(v3)?;
    if p.i != p.s.len() {
        return None;
    }
    Some(Rule::Alt { std: -(std_off as i32), dst: -(dst_off as i32), start, start_time, end, end_time })
}

/// day number (days since 0001-01-01) of a rule day in astronomical year `a`
pub fn rule_day(a: i64, r: &RuleDay) -> i64 {
    let jan1 = cal::days_from_civil(a, 1, 1);
    match r {
        RuleDay::J(n) => jan1 + (*n as i64 - 1) + if cal::is_leap(a) && *n >= 60 { 1 } else { 0 },
        RuleDay::N(n) => jan1 + *n as i64,
        RuleDay::M(m, w, d) => {
            let first = cal::days_from_civil(a, *m, 1);
            let wd = cal::weekday(first) as i64;
            let mut day = first + (*d as i64 - wd).rem_euclid(7) + 7 * (*w as i64 - 1);
            while day >= first + cal::month_len(a, *m) as i64 {
                day -= 7;
            }
            day
        }
    }
}

/// all switch instants (unix seconds, is-dst-after) of astronomical year `a`
pub fn switches(rule: &Rule, a: i64) -> Vec<(i64, bool)> {
    match rule {
        Rule::Fixed(_) => vec![],
        Rule::Alt { std, dst, start, start_time, end, end_time } => {
            let unix = |day: i64| (day - cal::DAYS_TO_1970) * 86_400;
            vec![(unix(rule_day(a, start)) + start_time - *std as i64, true), (unix(rule_day(a, end)) + end_time - *dst as i64, false)]
        }
    }
}

/// offset the rule prescribes at unix time t
pub fn rule_offset(rule: &Rule, t: i64) -> i32 {
    match rule {
        Rule::Fixed(o) => *o,
        Rule::Alt { std, dst, .. } => {
            let day = t.div_euclid(86_400) + cal::DAYS_TO_1970;
            let (a, _, _) = cal::civil_from_days(day);
            let mut all = vec![];
            for y in a - 1..=a + 1 {
                all.extend(switches(rule, y));
            }
            all.sort();
            let mut state = None;
            for (ts, is_dst) in &all {
                if *ts <= t {
                    state = Some(*is_dst);
                }
            }
            match state {
                Some(true) => *dst,
                Some(false) => *std,
                None => *std,
            }
        }
    }
}

// ------------------------------------------------------------------ TZif reader / writer

fn be32(b: &[u8]) -> u32 {
    u32::from_be_bytes([b[0], b[1], b[2], b[3]])
}

struct Block {
    transitions: Vec<(i64, usize)>,
    types: Vec<(i32, bool, u8)>,
    end: usize,
}

fn read_block(b: &[u8], at: usize, time_size: usize) -> Option<(u8, Block)> {
    if b.len() < at + 44 || &b[at..at + 4] != b"TZif" {
        return None;
    }
    let ver = b[at + 4];
    let c = |k: usize| be32(&b[at + 20 + 4 * k..]) as usize;
    let (isut, isstd, leap, timecnt, typecnt, charcnt) = (c(0), c(1), c(2), c(3), c(4), c(5));
    let mut p = at + 44;
    let need = timecnt * time_size + timecnt + typecnt * 6 + charcnt + leap * (time_size + 4) + isstd + isut;
    if b.len() < p + need || typecnt == 0 {
        return None;
    }
    let mut times = vec![];
    for k in 0..timecnt {
        let s = &b[p + k * time_size..];
        times.push(if time_size == 4 { i32::from_be_bytes([s[0], s[1], s[2], s[3]]) as i64 } else { i64::from_be_bytes([s[0], s[1], s[2], s[3], s[4], s[5], s[6], s[7]]) });
    }
    p += timecnt * time_size;
    let idx: Vec<usize> = b[p..p + timecnt].iter().map(|x| *x as usize).collect();
    p += timecnt;
    let mut types = vec![];
    for k in 0..typecnt {
        let s = &b[p + 6 * k..];
        types.push((i32::from_be_bytes([s[0], s[1], s[2], s[3]]), s[4] != 0, s[5]));
    }
    if idx.iter().any(|i| *i >= typecnt) {
        return None;
    }
    Some((ver, Block { transitions: times.into_iter().zip(idx).collect(), types, end: at + 44 + need }))
}

/// Strict reader for well-formed files. None = not well-formed by this reader's standards.
pub fn read_tzif(b: &[u8]) -> Option<Zone> {
    let (ver, v1) = read_block(b, 0, 4)?;
    match ver {
        0 => Some(Zone { version: 1, transitions: v1.transitions, types: v1.types, footer: None, footer_text: String::new(), leaps: 0, indicators: false }),
        b'2' | b'3' => {
            let (_, v2) = read_block(b, v1.end, 8)?;
            let foot = &b[v2.end..];
            if foot.len() < 2 || foot[0] != b'\n' || foot[foot.len() - 1] != b'\n' {
                return None;
            }
            let text = std::str::from_utf8(&foot[1..foot.len() - 1]).ok()?.to_string();
            let footer = if text.is_empty() { None } else { Some(parse_posix_tz(&text, ver == b'3')?) };
            Some(Zone { version: ver - b'0', transitions: v2.transitions, types: v2.types, footer, footer_text: text, leaps: 0, indicators: false })
        }
        _ => None,
    }
}

/// RFC 8536 lookup. None = before the first transition (outside the property).
pub fn offset_at(z: &Zone, t: i64) -> Option<i32> {
    match z.transitions.first() {
        None => Some(match &z.footer {
            Some(r) => rule_offset(r, t),
            None => z.types[0].0,
        }),
        Some((first, _)) => {
            if t < *first {
                return None;
            }
            let (last_t, last_ty) = *z.transitions.last().unwrap();
            if t >= last_t {
                if let Some(r) = &z.footer {
                    return Some(rule_offset(r, t));
                }
                return Some(z.types[last_ty].0);
            }
            let k = z.transitions.partition_point(|(tt, _)| *tt <= t);
            Some(z.types[z.transitions[k - 1].1].0)
        }
    }
}

fn write_block(out: &mut Vec<u8>, ver: u8, z: &Zone, time_size: usize, empty: bool) {
    out.extend(b"TZif");
    out.push(ver);
    out.extend([0u8; 15]);
    let desig: Vec<u8> = b"LMT\0STD\0DST\0".to_vec();
    let (trans, types): (&[(i64, usize)], &[(i32, bool, u8)]) = if empty { (&[], &z.types[..1]) } else { (&z.transitions, &z.types) };
    let ind = if z.indicators && !empty { types.len() as u32 } else { 0 };
    let leaps = if empty { 0 } else { z.leaps };
    for c in [ind, ind, leaps, trans.len() as u32, types.len() as u32, desig.len() as u32] {
        out.extend(c.to_be_bytes());
    }
    for (t, _) in trans {
        if time_size == 4 {
            out.extend((*t as i32).to_be_bytes());
        } else {
            out.extend(t.to_be_bytes());
        }
    }
    for (_, i) in trans {
        out.push(*i as u8);
    }
    for (o, d, a) in types {
        out.extend(o.to_be_bytes());
        out.push(*d as u8);
        out.push(*a);
    }
    out.extend(desig);
    for k in 0..leaps {
        let t = 78_796_800i64 + 31_536_000 * k as i64;
        if time_size == 4 {
            out.extend((t as i32).to_be_bytes());
        } else {
            out.extend(t.to_be_bytes());
        }
        out.extend((k as i32 + 1).to_be_bytes());
    }
    out.extend(vec![0u8; ind as usize]); // standard/wall
    out.extend(vec![0u8; ind as usize]); // UT/local
}

/// Serialise a zone as TZif version `z.version` (v2+: minimal v1 block, then the 64-bit block and footer).
pub fn write_tzif(z: &Zone) -> Vec<u8> {
    let mut out = vec![];
    if z.version == 1 {
        write_block(&mut out, 0, z, 4, false);
        return out;
    }
    let ver = b'0' + z.version;
    write_block(&mut out, ver, z, 4, true);
    write_block(&mut out, ver, z, 8, false);
    out.push(b'\n');
    out.extend(z.footer_text.as_bytes());
    out.push(b'\n');
    out
}

#[cfg(test)]
mod tests {
    use super::*;
    #[test]
    fn posix() {
        let r = parse_posix_tz("CET-1CEST,M3.5.0,M10.5.0/3", false).unwrap();
        // 2024-03-31T01:00:00Z switch to DST
        assert_eq!(rule_offset(&r, 1711846799), 3600);
        assert_eq!(rule_offset(&r, 1711846800), 7200);
        assert_eq!(rule_offset(&r, 1729990799), 7200);
        assert_eq!(rule_offset(&r, 1729990800), 3600);
    }
}
