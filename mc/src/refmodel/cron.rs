//! Reference cron model: a strict parser for the documented grammar (-> five value sets) and a
//! brute-force "next matching minute" evaluator on the reference calendar.
use super::calendar as cal;
use std::collections::BTreeSet;

pub type Sets = [BTreeSet<u8>; 5];

#[derive(Debug, Clone, PartialEq)]
pub enum Verdict {
    Accept(Sets),
    Reject,
    /// outside the documented grammar in a way the statement does not decide
    Unjudged,
}

const BOUNDS: [(u8, u8); 5] = [(0, 59), (0, 23), (1, 31), (1, 12), (0, 6)];
const MONTHS: [&str; 12] = ["jan", "feb", "mar", "apr", "may", "jun", "jul", "aug", "sep", "oct", "nov", "dec"];
const DAYS: [&str; 7] = ["sun", "mon", "tue", "wed", "thu", "fri", "sat"];

enum Val {
    Num(u32, bool), // value, spelled canonically (no leading zeros)
    Name(u8),
    Bad,
}

fn value(field: usize, s: &str) -> Val {
    if s.is_empty() {
        return Val::Bad;
    }
    if s.bytes().all(|b| b.is_ascii_digit()) {
        let canonical = s == "0" || !s.starts_with('0');
        return match s.parse::<u32>() {
            Ok(v) => Val::Num(v, canonical && s.len() <= 3),
            Err(_) => Val::Num(u32::MAX, false),
        };
    }
    let l = s.to_ascii_lowercase();
    if !s.is_ascii() {
        return Val::Bad;
    }
    if field == 3 {
        if let Some(p) = MONTHS.iter().position(|m| *m == l) {
            return Val::Name(p as u8 + 1);
        }
    }
    if field == 4 {
        if let Some(p) = DAYS.iter().position(|m| *m == l) {
            return Val::Name(p as u8);
        }
    }
    Val::Bad
}

enum Item {
    Set(BTreeSet<u8>),
    Reject,
    Unjudged,
}

fn item(field: usize, s: &str) -> Item {
    let (min, max) = BOUNDS[field];
    let hi = if field == 4 { 7 } else { max };
    if s == "*" {
        return Item::Set((min..=max).collect());
    }
    if let Some(step) = s.strip_prefix("*/") {
        return match value(field, step) {
            Val::Num(0, _) => Item::Reject,
            Val::Num(n, canonical) => {
                if !canonical || n > (max as u32 + 1) {
                    Item::Unjudged
                } else {
                    Item::Set((min..=max).step_by(n as usize).collect())
                }
            }
            _ => Item::Reject,
        };
    }
    if s.contains('/') || s.contains('*') {
        // a-b/s and anything else with '/' or a stray '*': a-b/s is undocumented, the rest is malformed
        let parts: Vec<&str> = s.split('/').collect();
        if parts.len() == 2 && parts[0].contains('-') && !parts[0].contains('*') && !parts[1].contains('*') {
            return Item::Unjudged;
        }
        return Item::Reject;
    }
    let norm = |v: u32| -> Option<u8> {
        if v >= min as u32 && v <= hi as u32 {
            Some(v as u8)
        } else {
            None
        }
    };
    let dashes = s.matches('-').count();
    if dashes == 0 {
        return match value(field, s) {
            Val::Num(v, canonical) => match norm(v) {
                Some(x) if canonical => Item::Set([if field == 4 && x == 7 { 0 } else { x }].into_iter().collect()),
                Some(_) => Item::Unjudged,
                None => Item::Reject,
            },
            Val::Name(x) => Item::Set([x].into_iter().collect()),
            Val::Bad => Item::Reject,
        };
    }
    if dashes == 1 {
        let (a, b) = s.split_once('-').unwrap();
        let (va, vb) = (value(field, a), value(field, b));
        let (x, y, mixed, canonical) = match (va, vb) {
            (Val::Bad, _) | (_, Val::Bad) => return Item::Reject,
            (Val::Num(x, c1), Val::Num(y, c2)) => (x, y, false, c1 && c2),
            (Val::Name(x), Val::Name(y)) => (x as u32, y as u32, false, true),
            (Val::Num(x, c), Val::Name(y)) => (x, y as u32, true, c),
            (Val::Name(x), Val::Num(y, c)) => (x as u32, y, true, c),
        };
        let (x, y) = match (norm(x), norm(y)) {
            (Some(x), Some(y)) => (x, y),
            _ => return Item::Reject,
        };
        if mixed || !canonical || x > y {
            return Item::Unjudged;
        }
        return Item::Set((x..=y).map(|v| if field == 4 && v == 7 { 0 } else { v }).collect());
    }
    Item::Reject
}

pub fn parse(expr: &str) -> Verdict {
    let fields: Vec<&str> = expr.split_whitespace().collect();
    if fields.len() != 5 {
        return Verdict::Reject;
    }
    let mut sets: Sets = Default::default();
    let mut unjudged = false;
    for (k, f) in fields.iter().enumerate() {
        for it in f.split(',') {
            match item(k, it) {
                Item::Set(s) => sets[k].extend(s),
                Item::Reject => return Verdict::Reject,
                Item::Unjudged => unjudged = true,
            }
        }
    }
    if unjudged {
        Verdict::Unjudged
    } else {
        Verdict::Accept(sets)
    }
}

/// whole minutes since 0001-01-01T00:00
pub fn day_matches(sets: &Sets, day: i64) -> bool {
    let (_, m, d) = cal::civil_from_days(day);
    if !sets[3].contains(&(m as u8)) {
        return false;
    }
    let dom_restricted = sets[2].len() != 31;
    let dow_restricted = sets[4].len() != 7;
    let dom = sets[2].contains(&(d as u8));
    let dow = sets[4].contains(&(cal::weekday(day) as u8));
    match (dom_restricted, dow_restricted) {
        (true, true) => dom || dow,
        (true, false) => dom,
        (false, true) => dow,
        (false, false) => true,
    }
}

/// earliest matching minute strictly after `after` (minutes since 0001-01-01T00:00), scanning at most ~9 years
pub fn next_after(sets: &Sets, after: i64) -> Option<i64> {
    let start = after + 1;
    let mut day = start.div_euclid(1440);
    let mut from = start.rem_euclid(1440);
    for _ in 0..(366 * 9) {
        if day_matches(sets, day) {
            for mod_ in from..1440 {
                if sets[1].contains(&((mod_ / 60) as u8)) && sets[0].contains(&((mod_ % 60) as u8)) {
                    return Some(day * 1440 + mod_);
                }
            }
        }
        day += 1;
        from = 0;
    }
    None
}
