//! A point in time as i128 nanoseconds since 0001-01-01T00:00:00Z, and its decomposition into
//! calendar / clock fields (after an offset has been added by the caller).
use super::calendar as cal;

pub const NS: i128 = 1_000_000_000;
pub const DAY: i128 = 86_400 * NS;

pub const MIN_INSTANT: i128 = cal::MIN_DAY as i128 * DAY;
pub const MAX_INSTANT: i128 = cal::MAX_DAY as i128 * DAY + DAY - 1;

pub fn representable(instant: i128) -> bool {
    (MIN_INSTANT..=MAX_INSTANT).contains(&instant)
}

#[derive(Clone, Copy, Debug, PartialEq, Eq)]
pub struct Fields {
    pub day: i64,
    pub nod: u64,
    pub year: i64, // display year
    pub month: u32,
    pub dom: u32,
    pub doy: u32,
    pub wd: u32,
    pub hour: u32,
    pub minute: u32,
    pub second: u32,
    pub sub: u32, // sub-second nanoseconds
}

pub fn split(instant: i128) -> (i64, u64) {
    (instant.div_euclid(DAY) as i64, instant.rem_euclid(DAY) as u64)
}

pub fn join(day: i64, nod: u64) -> i128 {
    day as i128 * DAY + nod as i128
}

pub fn decompose(instant: i128) -> Fields {
    let (day, nod) = split(instant);
    let (y, m, d) = cal::ymd(day);
    let secs = (nod / 1_000_000_000) as u32;
    Fields {
        day,
        nod,
        year: y,
        month: m,
        dom: d,
        doy: cal::day_of_year(day),
        wd: cal::weekday(day),
        hour: secs / 3600,
        minute: secs / 60 % 60,
        second: secs % 60,
        sub: (nod % 1_000_000_000) as u32,
    }
}

/// Unix timestamp (floored seconds) of an instant
pub fn unix_secs(instant: i128) -> i64 {
    (instant.div_euclid(NS) - cal::DAYS_TO_1970 as i128 * 86_400) as i64
}

pub fn from_unix(secs: i64, sub: u32) -> i128 {
    (secs as i128 + cal::DAYS_TO_1970 as i128 * 86_400) * NS + sub as i128
}
