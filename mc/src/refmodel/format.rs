//! Reference renderer written from the documented symbol tables (rustdoc of Date::format,
//! Time::format, DateTime::format), not from src/util/format.rs.
//! `render` returns None where the documentation does not determine the output (see DESIGN §5 C11).
use super::calendar as cal;
use super::instant::decompose;

#[derive(Clone, Copy, PartialEq, Eq, Debug)]
pub enum Kind {
    Date,
    Time,
    DateTime,
}

pub const DATE_SYMS: &str = "GyqMwdDe";
pub const TIME_SYMS: &str = "abhHKkmsnXx";

pub const MONTHS: [&str; 12] = ["January", "February", "March", "April", "May", "June", "July", "August", "September", "October", "November", "December"];
pub const WDAYS: [&str; 7] = ["Sunday", "Monday", "Tuesday", "Wednesday", "Thursday", "Friday", "Saturday"];

#[derive(Clone, Debug, PartialEq)]
pub enum Piece {
    Sym(char, usize),
    Lit(String),
}

/// Split a pattern into symbol runs and literal text. None = outside the judged grammar
/// (unbalanced quote, three or more consecutive apostrophes, NUL).
pub fn tokenize(kind: Kind, pattern: &str) -> Option<Vec<Piece>> {
    if pattern.contains("'''") || pattern.contains('\0') {
        return None;
    }
    let chars: Vec<char> = pattern.chars().collect();
    let mut out: Vec<Piece> = vec![];
    let mut i = 0;
    let push_lit = |out: &mut Vec<Piece>, c: char| match out.last_mut() {
        Some(Piece::Lit(s)) => s.push(c),
        _ => out.push(Piece::Lit(c.to_string())),
    };
    while i < chars.len() {
        let c = chars[i];
        if c == '\'' {
            if i + 1 < chars.len() && chars[i + 1] == '\'' {
                push_lit(&mut out, '\'');
                i += 2;
                continue;
            }
            // quoted text up to the next single apostrophe; '' inside is a literal apostrophe
            let mut j = i + 1;
            let mut text = String::new();
            let mut closed = false;
            while j < chars.len() {
                if chars[j] == '\'' {
                    if j + 1 < chars.len() && chars[j + 1] == '\'' {
                        text.push('\'');
                        j += 2;
                        continue;
                    }
                    closed = true;
                    break;
                }
                text.push(chars[j]);
                j += 1;
            }
            if !closed {
                return None;
            }
            // start a fresh literal piece so that quoted letters never merge into symbol runs
            out.push(Piece::Lit(text));
            out.push(Piece::Lit(String::new()));
            i = j + 1;
            continue;
        }
        let is_date = DATE_SYMS.contains(c);
        let is_time = TIME_SYMS.contains(c);
        let mine = match kind {
            Kind::Date => is_date,
            Kind::Time => is_time,
            Kind::DateTime => is_date || is_time,
        };
        if mine {
            let mut j = i;
            while j < chars.len() && chars[j] == c {
                j += 1;
            }
            out.push(Piece::Sym(c, j - i));
            i = j;
        } else if is_date || is_time {
            // a symbol of another type inside this type's pattern: undocumented
            return None;
        } else {
            push_lit(&mut out, c);
            i += 1;
        }
    }
    Some(out.into_iter().filter(|p| !matches!(p, Piece::Lit(s) if s.is_empty())).collect())
}

fn pad(n: u64, w: usize) -> String {
    format!("{:0w$}", n, w = w)
}

fn ordinal(q: u32) -> &'static str {
    match q {
        1 => "1st",
        2 => "2nd",
        3 => "3rd",
        _ => "4th",
    }
}

pub fn zone(width: usize, off: i32, with_z: bool) -> String {
    if with_z && off == 0 {
        return "Z".into();
    }
    let a = off.unsigned_abs();
    let (h, m, s) = (a / 3600, a / 60 % 60, a % 60);
    let sign = if off < 0 { '-' } else { '+' };
    match width {
        1 => {
            if m != 0 {
                format!("{}{:02}{:02}", sign, h, m)
            } else {
                format!("{}{:02}", sign, h)
            }
        }
        2 => format!("{}{:02}{:02}", sign, h, m),
        4 => {
            if s != 0 {
                format!("{}{:02}{:02}{:02}", sign, h, m, s)
            } else {
                format!("{}{:02}{:02}", sign, h, m)
            }
        }
        5 => {
            if s != 0 {
                format!("{}{:02}:{:02}:{:02}", sign, h, m, s)
            } else {
                format!("{}{:02}:{:02}", sign, h, m)
            }
        }
        _ => format!("{}{:02}:{:02}", sign, h, m), // 3 and over-long runs (default XXX)
    }
}

/// One symbol run on the local instant. None = not determined by the documentation.
pub fn render_sym(c: char, w: usize, local: i128, off: i32) -> Option<String> {
    let f = decompose(local);
    Some(match c {
        'G' => {
            let bc = f.year < 0;
            match w {
                1..=3 => if bc { "BC" } else { "AD" }.to_string(),
                5 => if bc { "B" } else { "A" }.to_string(),
                _ => if bc { "Before Christ" } else { "Anno Domini" }.to_string(),
            }
        }
        'y' => {
            let a = f.year.unsigned_abs();
            let sign = if f.year < 0 { "-" } else { "" };
            match w {
                2 => {
                    if f.year < 0 {
                        return None; // either -NN or NN: undocumented
                    }
                    pad(a % 100, 2)
                }
                _ => format!("{}{}", sign, pad(a, w)),
            }
        }
        'q' => {
            let q = (f.month - 1) / 3 + 1;
            match w {
                2 => pad(q as u64, 2),
                3 => format!("Q{}", q),
                4 => format!("{} quarter", ordinal(q)),
                _ => q.to_string(), // 1, 5 and over-long (default q)
            }
        }
        'M' => match w {
            1 => f.month.to_string(),
            2 => pad(f.month as u64, 2),
            3 => MONTHS[f.month as usize - 1][..3].to_string(),
            5 => MONTHS[f.month as usize - 1][..1].to_string(),
            _ => MONTHS[f.month as usize - 1].to_string(),
        },
        'w' => {
            let wk = cal::iso_week(f.day);
            if w == 1 {
                wk.to_string()
            } else {
                pad(wk as u64, 2)
            }
        }
        'd' => {
            if w == 1 {
                f.dom.to_string()
            } else {
                pad(f.dom as u64, 2)
            }
        }
        'D' => match w {
            2 => pad(f.doy as u64, 2),
            3 => pad(f.doy as u64, 3),
            _ => f.doy.to_string(),
        },
        'e' => {
            let mon = (f.wd + 6) % 7 + 1;
            match w {
                2 => pad(f.wd as u64 + 1, 2),
                3 => WDAYS[f.wd as usize][..3].to_string(),
                4 => WDAYS[f.wd as usize].to_string(),
                5 => WDAYS[f.wd as usize][..1].to_string(),
                6 => WDAYS[f.wd as usize][..2].to_string(),
                7 => mon.to_string(),
                8 => pad(mon as u64, 2),
                _ => (f.wd + 1).to_string(),
            }
        }
        'a' | 'b' => {
            let secs = f.hour * 3600 + f.minute * 60 + f.second;
            let special = if c == 'b' && secs == 43_200 {
                Some(2)
            } else if c == 'b' && secs == 0 {
                Some(3)
            } else {
                None
            };
            if special.is_some() && f.sub != 0 {
                return None; // "noon"/"midnight" within the first second: granularity undocumented
            }
            let idx = special.unwrap_or(if f.hour < 12 { 0 } else { 1 });
            let table: [&str; 4] = match w {
                1 | 2 => ["AM", "PM", "noon", "midnight"],
                4 => ["a.m.", "p.m.", "noon", "midnight"],
                5 => ["a", "p", "n", "mi"],
                _ => ["am", "pm", "noon", "midnight"],
            };
            table[idx].to_string()
        }
        'h' => {
            let h = if f.hour % 12 == 0 { 12 } else { f.hour % 12 };
            if w == 1 { h.to_string() } else { pad(h as u64, 2) }
        }
        'H' => {
            if w == 1 { f.hour.to_string() } else { pad(f.hour as u64, 2) }
        }
        'K' => {
            let h = f.hour % 12;
            if w == 1 { h.to_string() } else { pad(h as u64, 2) }
        }
        'k' => {
            let h = if f.hour == 0 { 24 } else { f.hour };
            if w == 1 { h.to_string() } else { pad(h as u64, 2) }
        }
        'm' => {
            if w == 1 { f.minute.to_string() } else { pad(f.minute as u64, 2) }
        }
        's' => {
            if w == 1 { f.second.to_string() } else { pad(f.second as u64, 2) }
        }
        'n' => match w {
            1 => pad(f.sub as u64 / 100_000_000, 1),
            2 => pad(f.sub as u64 / 10_000_000, 2),
            4 => pad(f.sub as u64 / 1_000, 6),
            5 => pad(f.sub as u64, 9),
            _ => pad(f.sub as u64 / 1_000_000, 3),
        },
        'X' => zone(w, off, true),
        'x' => zone(w, off, false),
        _ => return None,
    })
}

/// Render a whole pattern. `local` = instant + offset (Date: midnight of the day, offset 0).
pub fn render(kind: Kind, pattern: &str, local: i128, off: i32) -> Option<String> {
    let pieces = tokenize(kind, pattern)?;
    let mut out = String::new();
    for p in pieces {
        match p {
            Piece::Lit(s) => out.push_str(&s),
            Piece::Sym(c, w) => out.push_str(&render_sym(c, w, local, off)?),
        }
    }
    Some(out)
}
