//! Reference proleptic Gregorian calendar on astronomical years (year 0 exists, = display year -1).
//! Day 0 is 0001-01-01. Closed forms after H. Hinnant ("chrono-compatible low-level date
//! algorithms"); an independent successor walker is provided to validate them (C01).

pub const MIN_DAY: i64 = i32::MIN as i64;
pub const MAX_DAY: i64 = i32::MAX as i64;
pub const DAYS_TO_1970: i64 = 719_162;
pub const NANOS_PER_DAY: i128 = 86_400_000_000_000;

pub fn is_leap(a: i64) -> bool {
    a.rem_euclid(4) == 0 && (a.rem_euclid(100) != 0 || a.rem_euclid(400) == 0)
}

/// display year (no year 0) -> astronomical year
pub fn astro(y: i64) -> Option<i64> {
    if y == 0 {
        None
    } else if y > 0 {
        Some(y)
    } else {
        Some(y + 1)
    }
}

/// astronomical year -> display year
pub fn disp(a: i64) -> i64 {
    if a >= 1 {
        a
    } else {
        a - 1
    }
}

pub fn month_len(a: i64, m: u32) -> u32 {
    match m {
        1 | 3 | 5 | 7 | 8 | 10 | 12 => 31,
        4 | 6 | 9 | 11 => 30,
        2 => {
            if is_leap(a) {
                29
            } else {
                28
            }
        }
        _ => 0,
    }
}

pub fn year_len(a: i64) -> u32 {
    if is_leap(a) {
        366
    } else {
        365
    }
}

/// days since 0001-01-01 of the civil date (astronomical year)
pub fn days_from_civil(a: i64, m: u32, d: u32) -> i64 {
    let y = if m <= 2 { a - 1 } else { a };
    let era = y.div_euclid(400);
    let yoe = y - era * 400;
    let mp = if m > 2 { m as i64 - 3 } else { m as i64 + 9 };
    let doy = (153 * mp + 2) / 5 + d as i64 - 1;
    let doe = yoe * 365 + yoe / 4 - yoe / 100 + doy;
    era * 146_097 + doe - 719_468 + DAYS_TO_1970
}

/// inverse of `days_from_civil`: (astronomical year, month, day)
pub fn civil_from_days(day: i64) -> (i64, u32, u32) {
    let z = day - DAYS_TO_1970 + 719_468;
    let era = z.div_euclid(146_097);
    let doe = z - era * 146_097;
    let yoe = (doe - doe / 1_460 + doe / 36_524 - doe / 146_096) / 365;
    let y = yoe + era * 400;
    let doy = doe - (365 * yoe + yoe / 4 - yoe / 100);
    let mp = (5 * doy + 2) / 153;
    let d = (doy - (153 * mp + 2) / 5 + 1) as u32;
    let m = if mp < 10 { mp + 3 } else { mp - 9 } as u32;
    (if m <= 2 { y + 1 } else { y }, m, d)
}

/// display (year, month, day) of a day number
pub fn ymd(day: i64) -> (i64, u32, u32) {
    let (a, m, d) = civil_from_days(day);
    (disp(a), m, d)
}

/// Some(day number) iff (display year, month, day) is a valid calendar date whose day number fits i32
pub fn valid_day(y: i64, m: u32, d: u32) -> Option<i64> {
    let a = astro(y)?;
    if !(1..=12).contains(&m) || d == 0 || d > month_len(a, m) {
        return None;
    }
    let day = days_from_civil(a, m, d);
    if (MIN_DAY..=MAX_DAY).contains(&day) {
        Some(day)
    } else {
        None
    }
}

/// 0 = Sunday; 0001-01-01 (day 0) is a Monday, 1970-01-01 a Thursday
pub fn weekday(day: i64) -> u32 {
    (day + 1).rem_euclid(7) as u32
}

/// 1-based day of year
pub fn day_of_year(day: i64) -> u32 {
    let (a, _, _) = civil_from_days(day);
    (day - days_from_civil(a, 1, 1) + 1) as u32
}

fn iso_weeks_in_year(a: i64) -> u32 {
    // a year has 53 ISO weeks iff Jan 1 is a Thursday, or it is a leap year and Jan 1 is a Wednesday
    let jan1 = weekday(days_from_civil(a, 1, 1));
    if jan1 == 4 || (is_leap(a) && jan1 == 3) {
        53
    } else {
        52
    }
}

/// ISO-8601 week number (week with the year's first Thursday is week 1)
pub fn iso_week(day: i64) -> u32 {
    let (a, _, _) = civil_from_days(day);
    let doy = day_of_year(day) as i64;
    let wd = ((weekday(day) + 6) % 7 + 1) as i64; // Monday = 1 .. Sunday = 7
    let w = (doy - wd + 10) / 7;
    if w < 1 {
        iso_weeks_in_year(a - 1)
    } else if w as u32 > iso_weeks_in_year(a) {
        1
    } else {
        w as u32
    }
}

/// Independent successor walker: steps one day at a time using only the month-length table and
/// the leap rule (no closed form). Used to validate the closed forms over the whole i32 range.
#[derive(Clone, Copy, Debug)]
pub struct Walker {
    pub day: i64,
    pub a: i64,
    pub m: u32,
    pub d: u32,
    pub wd: u32,
    pub doy: u32,
}

impl Walker {
    pub fn at(day: i64) -> Self {
        let (a, m, d) = civil_from_days(day);
        Walker { day, a, m, d, wd: weekday(day), doy: day_of_year(day) }
    }
    pub fn step(&mut self) {
        self.day += 1;
        self.wd = (self.wd + 1) % 7;
        if self.d < month_len(self.a, self.m) {
            self.d += 1;
            self.doy += 1;
        } else if self.m < 12 {
            self.m += 1;
            self.d = 1;
            self.doy += 1;
        } else {
            self.a += 1;
            self.m = 1;
            self.d = 1;
            self.doy = 1;
        }
    }
    pub fn disp_year(&self) -> i64 {
        disp(self.a)
    }
}

/// months arithmetic: (astro year, month, day) + n months with end-of-month clamp
pub fn add_months(a: i64, m: u32, d: u32, n: i64) -> (i64, u32, u32) {
    let t = 12 * a + (m as i64 - 1) + n;
    let a2 = t.div_euclid(12);
    let m2 = (t.rem_euclid(12) + 1) as u32;
    let d2 = d.min(month_len(a2, m2));
    (a2, m2, d2)
}

/// day number after adding n months to the date of `day`; None when outside the i32 day range
pub fn day_add_months(day: i64, n: i64) -> Option<i64> {
    let (a, m, d) = civil_from_days(day);
    let (a2, m2, d2) = add_months(a, m, d, n);
    let r = days_from_civil(a2, m2, d2);
    if (MIN_DAY..=MAX_DAY).contains(&r) {
        Some(r)
    } else {
        None
    }
}

#[cfg(test)]
mod tests {
    use super::*;
    #[test]
    fn anchors() {
        assert_eq!(days_from_civil(1, 1, 1), 0);
        assert_eq!(days_from_civil(1970, 1, 1), DAYS_TO_1970);
        assert_eq!(civil_from_days(0), (1, 1, 1));
        assert_eq!(civil_from_days(-1), (0, 12, 31));
        assert_eq!(ymd(-1), (-1, 12, 31));
        assert_eq!(weekday(DAYS_TO_1970), 4);
        assert_eq!(ymd(MAX_DAY), (5_879_611, 7, 12));
        assert_eq!(ymd(MIN_DAY), (-5_879_611, 6, 23));
        // ISO weeks: 2021-01-03 is week 53 (of 2020), 2018-12-31 is week 1
        assert_eq!(iso_week(days_from_civil(2021, 1, 3)), 53);
        assert_eq!(iso_week(days_from_civil(2018, 12, 31)), 1);
        assert_eq!(iso_week(days_from_civil(2022, 5, 2)), 18);
    }
}
