//! Field replacement (set_*) and truncation (clear_until_*) on a *local* instant
//! (= UTC instant + offset), expressed on the decomposed calendar/clock fields.
use super::calendar as cal;
use super::instant::{self as ins, decompose, join};

pub const SET_NAMES: [&str; 10] = ["year", "month", "day", "day_of_year", "hour", "minute", "second", "milli", "micro", "nano"];
pub const CLEAR_NAMES: [&str; 9] = ["year", "month", "day", "hour", "minute", "second", "milli", "micro", "nano"];

/// new local instant after set_<field>(v), or None when the value must be refused
pub fn set_field(local: i128, field: usize, v: i64) -> Option<i128> {
    let f = decompose(local);
    let sub = f.sub as u64;
    let u = |max: i64| (0..=max).contains(&v);
    Some(match field {
        0 => join(cal::valid_day(v, f.month, f.dom)?, f.nod),
        1 => join(if u(u32::MAX as i64) { cal::valid_day(f.year, v as u32, f.dom)? } else { return None }, f.nod),
        2 => join(if u(u32::MAX as i64) { cal::valid_day(f.year, f.month, v as u32)? } else { return None }, f.nod),
        3 => {
            let a = cal::astro(f.year)?;
            let t = cal::days_from_civil(a, 1, 1) + v - 1;
            if v >= 1 && v <= cal::year_len(a) as i64 && (cal::MIN_DAY..=cal::MAX_DAY).contains(&t) {
                join(t, f.nod)
            } else {
                return None;
            }
        }
        4 if u(23) => join(f.day, f.nod % 3_600_000_000_000 + v as u64 * 3_600_000_000_000),
        5 if u(59) => join(f.day, f.nod - f.minute as u64 * 60_000_000_000 + v as u64 * 60_000_000_000),
        6 if u(59) => join(f.day, f.nod - f.second as u64 * 1_000_000_000 + v as u64 * 1_000_000_000),
        7 if u(999) => join(f.day, f.nod - sub + v as u64 * 1_000_000 + sub % 1_000_000),
        8 if u(999_999) => join(f.day, f.nod - sub + v as u64 * 1_000 + sub % 1_000),
        9 if u(999_999_999) => join(f.day, f.nod - sub + v as u64),
        _ => return None,
    })
}

/// value the getter of `field` reads on a local instant
pub fn get_field(local: i128, field: usize) -> i64 {
    let f = decompose(local);
    match field {
        0 => f.year,
        1 => f.month as i64,
        2 => f.dom as i64,
        3 => f.doy as i64,
        4 => f.hour as i64,
        5 => f.minute as i64,
        6 => f.second as i64,
        7 => (f.sub / 1_000_000) as i64,
        8 => (f.sub / 1_000) as i64,
        _ => f.sub as i64,
    }
}

/// local instant after clear_until_<unit>
pub fn clear_until(local: i128, unit: usize) -> i128 {
    let f = decompose(local);
    let a = cal::astro(f.year).unwrap();
    let sub = f.sub as u64;
    let sec_base = f.nod - sub;
    match unit {
        0 => 0,
        1 => join(cal::days_from_civil(a, 1, 1), 0),
        2 => join(cal::days_from_civil(a, f.month, 1), 0),
        3 => join(f.day, 0),
        4 => join(f.day, f.hour as u64 * 3_600_000_000_000),
        5 => join(f.day, (f.hour as u64 * 3600 + f.minute as u64 * 60) * 1_000_000_000),
        6 => join(f.day, sec_base),
        7 => join(f.day, sec_base + sub / 1_000_000 * 1_000_000),
        _ => join(f.day, sec_base + sub / 1_000 * 1_000),
    }
}

pub fn all_getters(local: i128) -> [i64; 11] {
    let f = ins::decompose(local);
    [f.year, f.month as i64, f.dom as i64, f.doy as i64, f.wd as i64, f.hour as i64, f.minute as i64, f.second as i64, (f.sub / 1_000_000) as i64, (f.sub / 1_000) as i64, f.sub as i64]
}
