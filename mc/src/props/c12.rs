//! C12 — parsing with the pattern that produced a string recovers the value (E1).
use crate::alphabets as ab;
use crate::engine::{call, Acc, Ctx, Out, Report};
use crate::props::c11::real_format;
use crate::real::{date_day, dt_from_off, dt_instant, off_secs, time_from};
use crate::refmodel::calendar as cal;
use crate::refmodel::instant as ins;
use astrolabe::{Date, DateTime, OffsetUtilities, Time};
use serde_json::{json, Value};

#[derive(Clone, Debug)]
pub struct Pat {
    pub text: String,
    pub kind: u8,       // 0 Date, 1 Time, 2 DateTime
    pub full: bool,     // carries full date, time of day to the nanosecond and a zone
    pub zone_secs: bool, // zone symbol can carry seconds
    pub zone: bool,
    pub max_year_digits: usize, // 0 = unlimited
    pub has_date: bool,
    pub has_time: bool,
}

fn date_parts() -> Vec<(&'static str, bool, usize)> {
    // (pattern, full date?, year digit limit for fixed-width years)
    vec![
        ("yyyy-MM-dd", true, 0),
        ("yyyy/MM/dd", true, 0),
        ("y-M-d", true, 0),
        ("d.M.y", true, 0),
        ("yyy.MM.dd", true, 0),
        ("yyyyyy-MM-dd", true, 6),
        ("yyyyyyy MM dd", true, 7),
        ("yyyyyMMdd", true, 5),
        ("dd.MM.yyyy", true, 0),
        ("d MMM y", true, 0),
        ("MMMM d, y", true, 0),
        ("MMMd,y", true, 0),
        ("yyyy-DDD", true, 0),
        ("y-D", true, 0),
        ("DD/y", true, 0),
        ("DDD'th day of' y", true, 0),
        ("GGGG y-MM-dd", true, 0),
        ("y-MM-dd G", true, 0),
        ("GGGGG yyyy.MM.dd", true, 0),
        ("yyyy-MM-dd 'W'ww e", true, 0),
        ("eeee, d MMMM yyyy", true, 0),
        ("eee d MMM y", true, 0),
        ("eeeeee ee eeeeeee eeeeeeee dd-MM-y", true, 0),
        ("q/yyyy-MM-dd", true, 0),
        ("qqqq yyyy-MM-dd w", true, 0),
        ("qqq qq yyyy-MM-dd", true, 0),
        ("MM-dd", false, 0),
        ("yyyy", false, 0),
        ("y''MM", false, 0),
        ("MMM", false, 0),
        ("d", false, 0),
        ("yyyyéMMédd", true, 0),
        ("yyyy年MM月dd日", true, 0),
        ("d€M€y", true, 0),
        // two-digit years: the text does not determine the year, so only "parses, and re-formats to
        // the same text" is demanded (has_date = false); no field derived from the full year appears
        ("yy-MM-dd", false, 0),
        ("d.M.yy", false, 0),
        // redundant but consistent date fields: day of year next to month and/or day of month
        ("yyyy MMM DDD", true, 0),
        ("DDD MM yyyy", true, 0),
        ("yyyy-MM-dd DDD", true, 0),
        ("D d y", true, 0),
        // over-long runs: format falls back to the default width, parse must read that width back
        ("yyyy-MM-ddd", true, 0),
        ("yyyy-MM-dd wwww", true, 0),
        ("yyyy-DDDD", true, 0),
        ("yyyy-MM-dddddd eeeeeeeee", true, 0),
        ("qqqqqq yyyy-MM-dd", true, 0),
        ("GGGGGG yyyy-MM-dd", true, 0),
    ]
}

/// further two-digit-year patterns, met by every year of a window in the dedicated sweep
const YY_PATTERNS: [&str; 6] = ["yy-MM-dd", "d.M.yy", "yyMMdd", "MM/dd/yy", "yy", "dd MMM yy"];

fn time_parts() -> Vec<(&'static str, bool)> {
    // (pattern, carries the time of day to the nanosecond?)
    vec![
        ("HH:mm:ss.nnnnn", true),
        ("H:m:s.nnnnn", true),
        ("HH:mm:ss", false),
        ("H:m:s", false),
        ("HH:mm:ss.nnn", false),
        ("HHmmssnnnn", false),
        ("HH:mm:ss.n", false),
        ("HH:mm:ss.nn", false),
        ("hh:mm:ss.nnnnn a", true),
        ("h:m:s.nnnnn aaa", true),
        ("hh:mm aaaa", false),
        ("h:mm aaaaa", false),
        ("KK:mm:ss.nnnnn a", true),
        ("K:m a", false),
        ("hh:mm:ss.nnnnn b", true),
        ("h:m:s bbbb", false),
        ("K.mm.ss bbbbb", false),
        ("hh:mm:ss bb", false),
        ("a hh:mm", false),
        ("kk:mm:ss.nnnnn", true),
        ("k:m:s", false),
        ("HH'h'mm'm'", false),
        ("mm:ss", false),
        ("HH", false),
        // unquoted multi-byte literals between and after time fields
        ("HH時mm分ss秒", false),
        ("HH·mm·ss.nnnnn", true),
        ("h時m分 a", false),
        ("hh–mm–ss a", false),
        ("HH:mm:ss€", false),
        // a 24-hour and a 12-hour field together (the 24-hour field decides)
        ("HH:mm:ss (hh)", false),
        ("kk (KK) mm:ss.nnnnn", true),
        ("H 'or' h:mm:ss a", false),
        // over-long runs of the clock fields (default width 2; a / b default to AM / PM style; n to milliseconds)
        ("HHH:mmm:sss", false),
        ("hhh:mm aaaaaa", false),
        ("KKKK:mm:ss bbbbbb", false),
        ("kkk:mm", false),
        ("HH:mm:ss.nnnnnn", false),
    ]
}

const ZONES: [(&str, bool); 11] = [("", false), ("X", false), ("XX", false), ("XXX", false), ("XXXX", true), ("XXXXX", true), ("x", false), ("xx", false), ("xxx", false), ("xxxx", true), ("xxxxx", true)];

pub fn patterns() -> Vec<Pat> {
    let mut v = vec![];
    for (d, full, lim) in date_parts() {
        v.push(Pat { text: d.to_string(), kind: 0, full: false, zone_secs: false, zone: false, max_year_digits: lim, has_date: full, has_time: false });
    }
    for (t, tfull) in time_parts() {
        for (z, zs) in ZONES {
            for zsep in ["", " "] {
                if z.is_empty() && !zsep.is_empty() {
                    continue;
                }
                v.push(Pat { text: format!("{}{}{}", t, zsep, z), kind: 1, full: false, zone_secs: zs, zone: !z.is_empty(), max_year_digits: 0, has_date: false, has_time: tfull });
            }
        }
    }
    for (d, dfull, lim) in date_parts() {
        for (t, tfull) in time_parts() {
            for (z, zs) in ZONES {
                for sep in [" ", "T", "'T'", " 'at' "] {
                    // keep the product bounded: rotate separators with the zone
                    if (sep.len() + z.len() + t.len()) % 4 != [" ", "T", "'T'", " 'at' "].iter().position(|s| *s == sep).unwrap() && !(sep == " ") {
                        continue;
                    }
                    let text = format!("{}{}{}{}", d, sep, t, z);
                    v.push(Pat { text, kind: 2, full: dfull && tfull && !z.is_empty(), zone_secs: zs, zone: !z.is_empty(), max_year_digits: lim, has_date: dfull, has_time: tfull });
                }
            }
        }
    }
    v
}

fn values(thorough: bool) -> Vec<(i64, u64, i32)> {
    let mut days: Vec<i64> = if thorough { ab::days_b() } else { ab::days_b_small() };
    for y in [2022i64, -5, 12_345, -123_456, 987, -101, -201, -401] {
        for m in 1..=12u32 {
            for d in [1u32, 9, 10, 28] {
                if let Some(x) = cal::valid_day(y, m, d) {
                    days.push(x);
                }
            }
        }
    }
    days.retain(|d| *d > cal::MIN_DAY + 2 && *d < cal::MAX_DAY - 2);
    days.sort();
    days.dedup();
    let mut times: Vec<u64> = vec![];
    for h in [0u64, 1, 9, 10, 11, 12, 13, 23] {
        for (m, s, n) in [(0u64, 0u64, 0u64), (9, 5, 1), (59, 59, 999_999_999), (30, 0, 123_456_789), (0, 0, 100_000_000)] {
            times.push((h * 3600 + m * 60 + s) * 1_000_000_000 + n);
        }
    }
    let offs = [0i32, 3600, -3600, 19_800, -34_200, 86_340, -86_340, 28_378, -28_378, 86_399, -1];
    let mut v = vec![];
    for (i, d) in days.iter().enumerate() {
        // rotate times/offsets over the days so that every time and every offset meets many days
        for k in 0..4 {
            v.push((*d, times[(i * 4 + k) % times.len()], offs[(i + k) % offs.len()]));
        }
    }
    // and the full product on a small day subset
    for d in [cal::days_from_civil(2022, 10, 31), cal::days_from_civil(-4, 2, 29), cal::days_from_civil(1, 1, 1), cal::days_from_civil(2024, 12, 31)] {
        for t in &times {
            for o in offs {
                v.push((d, *t, o));
            }
        }
    }
    v
}

fn case_roundtrip(p: &Pat, day: i64, nod: u64, off: i32, acc: &mut Acc) {
    case_roundtrip_inner(p, day, nod, off, acc);
    let h = crate::props::anchor::hash(&[day as u64, nod, off as u64, p.text.len() as u64]);
    if h % 4 == 0 {
        let pred = || json!({"pattern": p.text, "kind": p.kind, "day": day, "nod": nod.to_string(), "off": off, "text": ""});
        crate::props::anchor::parse_light(p.kind, acc, "parse (purity probe)", &pred);
        if h % 256 == 0 {
            crate::props::anchor::text(acc, "parse (purity probe)", &pred);
        }
    }
}

fn case_roundtrip_inner(p: &Pat, day: i64, nod: u64, off: i32, acc: &mut Acc) {
    // filter to what the pattern can carry (the quantifier's side conditions)
    let off = if !p.zone { 0 } else { off };
    if p.zone && !p.zone_secs && off % 60 != 0 {
        return;
    }
    let local = crate::props::c11::local_of(p.kind, day, nod, off);
    let year = ins::decompose(local).year;
    if p.max_year_digits != 0 && year.unsigned_abs() >= 10u64.pow(p.max_year_digits as u32) {
        return;
    }
    if p.kind != 1 && !(p.has_date) && year.unsigned_abs() >= 5_879_611 {
        // partial date patterns default the missing fields to month 1 / day 1, which does not
        // exist in the first (partial) year of the range
        return;
    }
    if p.kind != 1 && has_two_digit_year(&p.text) {
        // a two-digit year is read back as a year of the current (wall-clock) millennium. For years
        // before -9 that year's February need not have 29 days, and for "00" it depends on the wall
        // clock (2000 is a leap year, 1000 and 3000 are not): those texts cannot be required to parse
        let f = ins::decompose(local);
        if (year <= -10 || year % 100 == 0) && f.month == 2 && f.dom == 29 {
            return;
        }
    }
    if p.kind != 1 && !p.text.contains('y') {
        // without a year field the parsed year defaults to 0001: 29 February cannot be carried
        let f = ins::decompose(local);
        if f.month == 2 && f.dom == 29 {
            return;
        }
    }
    let s = match real_format(p.kind, day, nod, off, &p.text) {
        Some(Out::Val(s)) => s,
        _ => return,
    };
    acc.transitions += 3;
    acc.states += 1;
    let case = || json!({"pattern": p.text, "kind": p.kind, "day": day, "nod": nod.to_string(), "off": off, "text": s});
    let tyname = ["Date", "Time", "DateTime"][p.kind as usize];
    // parse and re-format
    let back: Out<(String, Option<i128>, i32)> = match p.kind {
        0 => match call(|| Date::parse(&s, &p.text)) {
            Out::Val(Ok(v)) => call(|| (v.format(&p.text), Some(ins::join(date_day(&v), 0)), 0)),
            Out::Val(Err(e)) => Out::Err(e.to_string()),
            Out::Panic(m) => Out::Panic(m),
            Out::Err(e) => Out::Err(e),
        },
        1 => match call(|| Time::parse(&s, &p.text)) {
            Out::Val(Ok(v)) => call(|| (v.format(&p.text), Some(v.as_nanos() as i128), off_secs(v.get_offset()))),
            Out::Val(Err(e)) => Out::Err(e.to_string()),
            Out::Panic(m) => Out::Panic(m),
            Out::Err(e) => Out::Err(e),
        },
        _ => match call(|| DateTime::parse(&s, &p.text)) {
            Out::Val(Ok(v)) => call(|| (v.format(&p.text), dt_instant(&v), off_secs(v.get_offset()))),
            Out::Val(Err(e)) => Out::Err(e.to_string()),
            Out::Panic(m) => Out::Panic(m),
            Out::Err(e) => Out::Err(e),
        },
    };
    let month = ins::decompose(local).month;
    let cls = format!("{}{}", if year < 0 { "bc" } else { "ad" }, if month >= 10 { "-month>=10" } else { "" });
    match &back {
        Out::Val((s2, inst, o2)) => {
            if *s2 != s {
                acc.violation(&format!("{}::parse", tyname), &format!("reformat-differs-{}", cls), case(), s.clone(), s2.clone());
                return;
            }
            acc.branch("reproduced");
            // absent zone defaults to UTC
            if !p.zone && *o2 != 0 {
                acc.violation(&format!("{}::parse", tyname), "absent-zone-not-utc", case(), "offset 0".into(), o2.to_string());
            }
            if p.zone && *o2 != off {
                acc.violation(&format!("{}::parse", tyname), "offset-not-recovered", case(), off.to_string(), o2.to_string());
            }
            match p.kind {
                2 if p.full => {
                    acc.nontrivial += 1;
                    if *inst != Some(ins::join(day, nod)) {
                        acc.violation("DateTime::parse", &format!("instant-not-recovered-{}", cls), case(), ins::join(day, nod).to_string(), format!("{:?}", inst));
                    }
                    acc.branch("full-pattern-instant-recovered");
                }
                2 if !p.has_date && p.has_time && p.zone => {}
                0 if p.has_date => {
                    if *inst != Some(ins::join(day, 0)) {
                        acc.violation("Date::parse", &format!("date-not-recovered-{}", cls), case(), day.to_string(), format!("{:?}", inst));
                    }
                }
                1 if p.has_time && p.zone => {
                    if *inst != Some(nod as i128) {
                        acc.violation("Time::parse", "time-not-recovered", case(), nod.to_string(), format!("{:?}", inst));
                    }
                }
                _ => {}
            }
        }
        other => acc.violation(&format!("{}::parse", tyname), &format!("own-output-rejected-{}", cls), case(), "Ok".into(), other.show()),
    }
}

/// true when the pattern (outside quoted text) has a run of exactly two `y`
fn has_two_digit_year(pattern: &str) -> bool {
    let mut quoted = false;
    let mut run = 0;
    let mut found = false;
    for c in pattern.chars().chain(std::iter::once(' ')) {
        if c == '\'' {
            quoted = !quoted;
        }
        if c == 'y' && !quoted {
            run += 1;
        } else {
            found |= run == 2;
            run = 0;
        }
    }
    found
}

/// fields absent from the pattern default to 0001-01-01, 00:00:00, UTC
fn case_defaults(acc: &mut Acc) {
    acc.transitions += 3;
    acc.states += 3;
    let a = call(|| DateTime::parse("17", "mm").map(|v| (dt_instant(&v), off_secs(v.get_offset()))).map_err(|e| e.to_string()));
    if a != Out::Val(Ok((Some(17 * 60 * ins::NS), 0))) {
        acc.violation("DateTime::parse", "defaults", json!({"pattern": "mm", "text": "17", "kind": 2, "day": 0, "nod": "0", "off": 0}), "0001-01-01T00:17:00Z".into(), a.show());
    }
    let b = call(|| Date::parse("", "").map(|v| date_day(&v)).map_err(|e| e.to_string()));
    if b != Out::Val(Ok(0)) {
        acc.violation("Date::parse", "defaults", json!({"pattern": "", "text": "", "kind": 0, "day": 0, "nod": "0", "off": 0}), "0001-01-01".into(), b.show());
    }
    let c = call(|| Time::parse("", "").map(|v| (v.as_nanos(), off_secs(v.get_offset()))).map_err(|e| e.to_string()));
    if c != Out::Val(Ok((0, 0))) {
        acc.violation("Time::parse", "defaults", json!({"pattern": "", "text": "", "kind": 1, "day": 0, "nod": "0", "off": 0}), "00:00:00 UTC".into(), c.show());
    }
    acc.branch("defaults");
}


/// "Fields absent from p default to 0001-01-01, 00:00:00 and UTC", over the whole lattice of
/// present/absent fields: date mode (any subset of year, month, day; or day-of-year with or without
/// year) x any subset of hour, minute, second, sub-second x zone present or not, for each type.
const LATTICE_VALUES: [(i64, u32, u32, u64, i32); 6] = [
    (2024, 10, 27, 49_556_123_456_789, 19_800),
    (2023, 2, 28, 86_399_999_999_999, -34_200),
    (-44, 3, 15, 1_000_000_005, -3_600),
    (1, 1, 1, 0, 0),
    (9999, 12, 31, 43_200_000_000_000, 86_399),
    (1970, 7, 4, 3_723_000_000_001, 28_378),
];
const LATTICE_DATE_MODES: u64 = 10; // 0..8: bitmask year=1, month=2, day=4; 8: day-of-year; 9: year + day-of-year
const LATTICE_PER_VALUE: u64 = (LATTICE_DATE_MODES * 16 * 2) + LATTICE_DATE_MODES + 16 * 2;

fn case_default_lattice(i: u64, acc: &mut Acc) {
    let (y, mo, d, nod, off0) = LATTICE_VALUES[(i / LATTICE_PER_VALUE) as usize];
    let r = i % LATTICE_PER_VALUE;
    // (kind, date mode or none, time mask, zone)
    let (kind, dmode, tmask, zone) = if r < LATTICE_DATE_MODES * 32 {
        (2u8, Some(r / 32), (r % 32) / 2, r % 2 == 1)
    } else if r < LATTICE_DATE_MODES * 32 + LATTICE_DATE_MODES {
        (0u8, Some(r - LATTICE_DATE_MODES * 32), 0, false)
    } else {
        let q = r - LATTICE_DATE_MODES * 33;
        (1u8, None, q / 2, q % 2 == 1)
    };
    let off = if zone { off0 } else { 0 };
    // zone symbols narrower than xxxxx cannot carry seconds
    let zsym = if off % 60 != 0 { "xxxxx" } else { "xxx" };
    let day = match cal::valid_day(y, mo, d) {
        Some(x) => x,
        None => return,
    };
    let mut parts: Vec<&str> = vec![];
    if let Some(m) = dmode {
        if m < 8 {
            if m & 1 != 0 {
                parts.push("yyyy");
            }
            if m & 2 != 0 {
                parts.push("MM");
            }
            if m & 4 != 0 {
                parts.push("dd");
            }
        } else {
            if m == 9 {
                parts.push("yyyy");
            }
            parts.push("DDD");
        }
    }
    for (bit, sym) in [(1u64, "HH"), (2, "mm"), (4, "ss"), (8, "nnnnn")] {
        if tmask & bit != 0 {
            parts.push(sym);
        }
    }
    if zone {
        parts.push(zsym);
    }
    let pattern = parts.join(" ");
    // the value whose local fields are (y, mo, d, nod) at the offset
    let (vday, vnod) = match kind {
        0 => (day, 0u64),
        1 => (0, (nod as i128 - off as i128 * ins::NS).rem_euclid(ins::DAY) as u64),
        _ => ins::split(ins::join(day, nod) - off as i128 * ins::NS),
    };
    let text = match real_format(kind, vday, vnod, off, &pattern) {
        Some(Out::Val(s)) => s,
        _ => return,
    };
    // expected local fields after defaulting
    let lf = ins::decompose(ins::join(day, nod));
    let exp_day: Option<i64> = match dmode {
        None => Some(0),
        Some(m) if m < 8 => cal::valid_day(if m & 1 != 0 { y } else { 1 }, if m & 2 != 0 { mo } else { 1 }, if m & 4 != 0 { d } else { 1 }),
        Some(m) => {
            let yy = if m == 9 { y } else { 1 };
            match (cal::astro(yy), cal::valid_day(yy, 1, 1)) {
                (Some(a), Some(jan1)) if lf.doy <= cal::year_len(a) => Some(jan1 + lf.doy as i64 - 1),
                _ => None,
            }
        }
    };
    let exp_day = match exp_day {
        Some(x) => x,
        None => return, // the defaulted date does not exist (29 February of year 1): not required to parse
    };
    let mut exp_nod: u64 = 0;
    if tmask & 1 != 0 {
        exp_nod += lf.hour as u64 * 3_600_000_000_000;
    }
    if tmask & 2 != 0 {
        exp_nod += lf.minute as u64 * 60_000_000_000;
    }
    if tmask & 4 != 0 {
        exp_nod += lf.second as u64 * 1_000_000_000;
    }
    if tmask & 8 != 0 {
        exp_nod += lf.sub as u64;
    }
    acc.transitions += 2;
    acc.states += 1;
    let case = || json!({"kind": kind, "lattice": i, "pattern": pattern, "text": text});
    let tyname = ["Date", "Time", "DateTime"][kind as usize];
    let (got, expected): (Out<(Option<i128>, i32)>, (Option<i128>, i32)) = match kind {
        0 => (flat(call(|| Date::parse(&text, &pattern).map(|v| (Some(ins::join(date_day(&v), 0)), 0)).map_err(|e| e.to_string()))), (Some(ins::join(exp_day, 0)), 0)),
        1 => (flat(call(|| Time::parse(&text, &pattern).map(|v| (Some(v.as_nanos() as i128), off_secs(v.get_offset()))).map_err(|e| e.to_string()))), (Some((exp_nod as i128 - off as i128 * ins::NS).rem_euclid(ins::DAY)), off)),
        _ => (flat(call(|| DateTime::parse(&text, &pattern).map(|v| (dt_instant(&v), off_secs(v.get_offset()))).map_err(|e| e.to_string()))), (Some(ins::join(exp_day, exp_nod) - off as i128 * ins::NS), off)),
    };
    if got != Out::Val(expected) {
        acc.violation(&format!("{}::parse", tyname), "absent-fields-default", case(), format!("{:?}", expected), got.show());
    } else {
        acc.branch("lattice-defaults");
        acc.nontrivial += 1;
    }
}

fn flat<T>(o: Out<Result<T, String>>) -> Out<T> {
    match o {
        Out::Val(Ok(v)) => Out::Val(v),
        Out::Val(Err(e)) => Out::Err(e),
        Out::Panic(m) => Out::Panic(m),
        Out::Err(e) => Out::Err(e),
    }
}

pub fn run(ctx: &Ctx) -> i32 {
    let mut rep = Report::new(ctx);
    rep.rule = "states = distinct (pattern, value) pairs admitted by the quantifier's side conditions; transitions = real format -> parse -> format chains; parse must succeed, re-formatting must reproduce the string, full patterns must recover instant and offset, absent fields default; non-trivial = round trips of full date+time+zone patterns".into();
    rep.assumptions = vec![
        "the pattern set is generated from lists of date parts, time parts, zone symbols and separators that satisfy the unambiguous-field grammar; narrow names are excluded as the statement says".into(),
        "two-digit years (yy) do not determine the year: for them only 'parses, and re-formats to the same text' is demanded, in patterns without fields derived from the full year (e, w, D, G), and 29 February of years before -9 or ending in 00 is skipped (the text is read back into the wall clock's millennium, whose year may be a common year)".into(),
        "derived fields (G, q, w, e) appear only together with the fields that determine them".into(),
    ];
    rep.require(&["reproduced", "full-pattern-instant-recovered", "defaults", "two-digit-year", "lattice-defaults"]);
    let pats = patterns();
    let vals = values(ctx.thorough);
    let thorough = ctx.thorough;
    let (np, nv) = (pats.len() as u64, vals.len() as u64);
    rep.extra.insert("patterns".into(), json!(np));
    rep.extra.insert("values".into(), json!(nv));
    rep.sweep("round trips: pattern grammar x value set", np * nv, "every generated pattern with every value (filtered by what the pattern can carry)", |i, acc| {
        let p = &pats[(i / nv) as usize];
        let (d, n, o) = vals[(i % nv) as usize];
        if !thorough && p.kind == 2 && (i % nv + i / nv) % 3 != 0 {
            return; // quick tier: DateTime patterns meet every third value (rotating with the pattern index)
        }
        case_roundtrip(p, d, n, o, acc);
        if i % 9_000_011 == 0 {
            acc.sample(json!({"pattern": p.text, "value": [d, n, o]}));
        }
    });
    // two-digit years: every year of a window (both eras, every residue modulo 100 and 400) with the
    // month/day menu, for Date and for DateTime under three offsets
    let ylo: i64 = if thorough { -12_000 } else { -2_500 };
    let yhi: i64 = if thorough { 12_000 } else { 2_500 };
    let md: [(u32, u32); 6] = [(1, 1), (2, 28), (2, 29), (3, 1), (10, 9), (12, 31)];
    let yy_pats: Vec<Pat> = YY_PATTERNS.iter().flat_map(|t| {
        [
            Pat { text: t.to_string(), kind: 0, full: false, zone_secs: false, zone: false, max_year_digits: 0, has_date: false, has_time: false },
            Pat { text: format!("{} HH:mm xxx", t), kind: 2, full: false, zone_secs: false, zone: true, max_year_digits: 0, has_date: false, has_time: false },
        ]
    }).collect();
    let years = (yhi - ylo + 1) as u64;
    let per_year = (md.len() * yy_pats.len() * 3) as u64;
    rep.sweep("two-digit years: every year of the window x month/day menu x yy patterns", years * per_year, "parse succeeds and re-formatting reproduces the text (the year itself is not determined by the text)", |i, acc| {
        let y = ylo + (i / per_year) as i64;
        let r = i % per_year;
        let p = &yy_pats[(r % yy_pats.len() as u64) as usize];
        let r = r / yy_pats.len() as u64;
        let (m, d) = md[(r % md.len() as u64) as usize];
        let off = [0i32, 19_800, -34_200][(r / md.len() as u64) as usize];
        if y == 0 || (p.kind == 0 && off != 0) {
            return;
        }
        if let Some(day) = cal::valid_day(y, m, d) {
            case_roundtrip(p, day, 45_296_000_000_000, off, acc);
            acc.branch("two-digit-year");
        }
    });
    rep.sweep("absent fields: the whole present/absent lattice of date, time and zone fields x 6 values x 3 types", LATTICE_VALUES.len() as u64 * LATTICE_PER_VALUE, "every subset of {year, month, day} or day-of-year (with/without year) x every subset of {hour, minute, second, sub-second} x zone or none; the parsed value must equal the value with absent fields replaced by 0001-01-01 / 00:00:00 / UTC", |i, acc| case_default_lattice(i, acc));
    let mut acc = Acc::default();
    case_defaults(&mut acc);
    rep.acc.merge(acc);
    let _ = (dt_from_off, time_from);
    rep.finish()
}

pub fn replay(_op: &str, case: &Value, acc: &mut Acc) -> bool {
    let text = case["pattern"].as_str().unwrap().to_string();
    let kind = case["kind"].as_u64().unwrap();
    if let Some(i) = case["lattice"].as_u64() {
        case_default_lattice(i, acc);
    } else if has_two_digit_year(&text) {
        let zone = text.ends_with("xxx");
        let p = Pat { text, kind: kind as u8, full: false, zone_secs: false, zone, max_year_digits: 0, has_date: false, has_time: false };
        case_roundtrip(&p, case["day"].as_i64().unwrap(), case["nod"].as_str().unwrap().parse().unwrap(), case["off"].as_i64().unwrap() as i32, acc);
    } else if let Some(p) = patterns().into_iter().find(|p| p.text == text && p.kind as u64 == kind) {
        case_roundtrip(&p, case["day"].as_i64().unwrap(), case["nod"].as_str().unwrap().parse().unwrap(), case["off"].as_i64().unwrap() as i32, acc);
    } else {
        case_defaults(acc);
    }
    true
}
