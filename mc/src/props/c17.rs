//! C17 — the cron iterator yields every matching minute after now, in order, only those
//! (E2: stateright BFS over histories of (advance the pinned clock, call next), clone-and-continue).
use crate::engine::{call, Acc, Ctx, Out, Report, Space, PROFILE};
use crate::props::c16::pin_clock;
use crate::refmodel::calendar as cal;
use crate::refmodel::cron::{self as rc, Sets, Verdict};
use astrolabe::{CronSchedule, DateUtilities, TimeUtilities};
use serde_json::{json, Value};
use stateright::{Checker, Model, Property};
use std::hash::{Hash, Hasher};
use std::sync::atomic::{AtomicU64, Ordering};
use std::sync::Arc;

const ADVANCES: [i64; 9] = [0, 1, 59, 60, 61, 3_600, 86_400, 40 * 86_400, 400 * 86_400];
const EPOCH_MIN: i64 = cal::DAYS_TO_1970 * 1440;

pub fn schedules(thorough: bool) -> Vec<&'static str> {
    let mut v = vec![
        "* * * * *", "*/7 * * * *", "59 23 31 12 *", "0 0 29 2 *", "0 0 31 * *", "0 0 * * 1", "0 0 13 * 5", "0 12 1 1,7 *", "30 4 1,15 * 5", "0 */6 * * *", "15,45 9-17 * * 1-5", "0 0 1 * *",
        // day-of-month lists mixing days that short months lack with days at the start of the month
        "0 0 1,30 * *", "0 12 2,31 * *", "30 6 */5 * *",
        // day-of-week ranges written up to 7 (Sunday's alias): six days, alone and OR-ed with a day of month
        "30 6 * * 2-7", "0 0 15 * 3-7",
        // a restricted month with both day fields free (whole allowed blocks separated by long gaps)
        "0 0 * 2 *",
        // every minute of one weekday (all other fields free)
        "* * * * 1",
    ];
    if thorough {
        v.extend([
            "5 0 * 8 *", "0 22 * * 1-5", "23 0,2,4,6,8,10,12,14,16,18,20 * * *", "5 4 * * sun", "0 0,12 1 */2 *", "0 4 8-14 * *", "59 * * * *", "* 23 * * *", "0 0 30 4,6,9,11 *", "0 0 31 1,3,5 0", "1 1 1 1 1", "*/59 */23 * * *", "0 0 28-31 * *", "59 23 * * 6,7",
            "0 0 29 2 1", "30 12 * * 0-7", "0 0 1 jan *", "* * 29 feb *", "0 0 * dec sat", "*/15 * 1 * *", "0 0 15 * mon", "59 23 28 2 *", "0 0 1 3 *", "0 1 * * *", "0 0 2,9,16,23,30 * *", "7 7 7 7 *", "0 0 * * 2,4", "*/30 */12 1,31 * *",
        ]);
    }
    v
}

fn unix_of(y: i64, m: u32, d: u32, h: i64, mi: i64, s: i64) -> i64 {
    (cal::days_from_civil(y, m, d) - cal::DAYS_TO_1970) * 86_400 + h * 3600 + mi * 60 + s
}

pub fn starts() -> Vec<i64> {
    vec![
        unix_of(2022, 1, 1, 0, 0, 0), unix_of(2021, 12, 31, 23, 59, 59), unix_of(2021, 12, 31, 23, 59, 0), unix_of(2022, 1, 1, 0, 0, 30), unix_of(2022, 1, 1, 0, 1, 0),
        unix_of(2024, 2, 28, 23, 59, 30), unix_of(2024, 2, 29, 12, 0, 0), unix_of(2024, 2, 29, 23, 59, 59), unix_of(2023, 2, 28, 23, 59, 59), unix_of(2022, 12, 31, 23, 59, 59),
        unix_of(2022, 1, 31, 23, 59, 59), unix_of(2022, 4, 30, 23, 59, 1), unix_of(2022, 5, 13, 0, 0, 0), unix_of(2022, 5, 12, 23, 59, 59), unix_of(2022, 5, 13, 0, 0, 1),
        unix_of(2022, 7, 1, 11, 59, 59), unix_of(2022, 7, 1, 12, 0, 0), unix_of(2022, 7, 1, 12, 0, 59), unix_of(2023, 12, 31, 23, 59, 59), unix_of(2025, 3, 1, 0, 0, 0),
        unix_of(2022, 6, 15, 6, 6, 6), unix_of(2022, 8, 31, 23, 0, 0), unix_of(2022, 10, 30, 1, 30, 0), unix_of(2022, 11, 6, 22, 58, 59), unix_of(2028, 2, 29, 0, 0, 0),
        unix_of(2022, 3, 13, 2, 30, 0), unix_of(2022, 12, 25, 12, 30, 30), unix_of(2022, 9, 30, 23, 59, 59), unix_of(2022, 2, 28, 12, 0, 0), unix_of(2027, 12, 31, 23, 59, 30),
        unix_of(2023, 2, 2, 0, 0, 0), unix_of(2023, 2, 26, 6, 30, 0), unix_of(2024, 2, 10, 12, 0, 1),
        // around 2100 (not a leap year: 29 February is eight years apart) and a far year
        unix_of(2096, 2, 29, 0, 0, 30), unix_of(2099, 12, 31, 23, 59, 59), unix_of(2100, 2, 28, 23, 59, 0), unix_of(2400, 2, 28, 12, 0, 0),
        // ten minutes before the end of a Monday (a run of matching minutes that ends at midnight)
        unix_of(2024, 1, 1, 23, 50, 10),
        // clocks far from the epoch: around 2^63 and 2^64 nanoseconds after 1970, and five- and six-digit years
        unix_of(2262, 4, 11, 23, 47, 16), unix_of(2554, 7, 21, 23, 30, 0), unix_of(2554, 7, 21, 23, 34, 33), unix_of(3000, 6, 15, 12, 0, 30), unix_of(9999, 12, 31, 23, 59, 30), unix_of(100_000, 2, 28, 23, 59, 59),
    ]
}

#[derive(Clone, Debug)]
pub struct St {
    sched: usize,
    real: CronSchedule,
    clock: i64,
    last: Option<i64>, // model: last result in minutes since 0001-01-01T00:00
    bad: Option<String>,
    depth: u8,
}

fn last_of(real: &CronSchedule) -> String {
    let t = format!("{:?}", real);
    match t.find("last_schedule") {
        Some(p) => t[p..].to_string(),
        None => t,
    }
}

impl PartialEq for St {
    fn eq(&self, o: &Self) -> bool {
        self.sched == o.sched && self.clock == o.clock && self.last == o.last && self.depth == o.depth && self.bad.is_some() == o.bad.is_some() && last_of(&self.real) == last_of(&o.real)
    }
}
impl Eq for St {}
impl Hash for St {
    fn hash<H: Hasher>(&self, h: &mut H) {
        self.sched.hash(h);
        self.clock.hash(h);
        self.last.hash(h);
        self.depth.hash(h);
        self.bad.is_some().hash(h);
        last_of(&self.real).hash(h);
    }
}

/// action: 0..9 = advance the clock by ADVANCES[a] then next(); 9..18 = same on a clone of the schedule; 18..21 = nth(NTH[a - 18])
pub struct Machine {
    exprs: Vec<String>,
    parsed: Vec<(CronSchedule, Sets)>,
    starts: Vec<i64>,
    max_depth: u8,
    transitions: Arc<AtomicU64>,
}

/// one step on the real iterator and the model; returns (new real, new last, disagreement)
thread_local! {
    /// when set, "continue on a copy" copies with Clone::clone_from into a freshly parsed schedule of this text
    static CLONE_FROM_EXPR: std::cell::RefCell<Option<String>> = std::cell::RefCell::new(None);
}

fn step(real: &CronSchedule, sets: &Sets, clock: i64, last: Option<i64>, clone_first: bool) -> (CronSchedule, Option<i64>, Option<String>) {
    let mut it = if clone_first {
        // two ways of continuing on a copy: clone(), and clone_from() into another (fresh) schedule
        let via_clone_from = CLONE_FROM_EXPR.with(|e| e.borrow().clone()).and_then(|e| CronSchedule::parse(&e).ok()).map(|mut fresh| {
            fresh.clone_from(real);
            fresh
        });
        match via_clone_from {
            Some(f) if (clock + last.unwrap_or(0)) % 2 == 0 => f,
            _ => real.clone().clone(),
        }
    } else {
        real.clone()
    };
    pin_clock(clock);
    let now_min = clock.div_euclid(60) + EPOCH_MIN;
    let after = last.map_or(now_min, |l| l.max(now_min));
    let want = rc::next_after(sets, after);
    let got = call(|| {
        it.next().map(|x| {
            let ts = x.timestamp();
            (ts, x.second(), x.nano())
        })
    });
    match (want, &got) {
        (Some(w), Out::Val(Some((ts, s, n)))) => {
            let gm = ts.div_euclid(60) + EPOCH_MIN;
            if gm == w && ts.rem_euclid(60) == 0 && *s == 0 && *n == 0 {
                (it, Some(w), None)
            } else {
                (it, Some(w), Some(format!("expected minute {} ({}), observed timestamp {} second {} nano {}", w, show_min(w), ts, s, n)))
            }
        }
        (w, g) => (it, last, Some(format!("expected {:?}, observed {}", w.map(show_min), g.show()))),
    }
}

/// counts consumed by the nth() actions (Iterator::nth(k) must equal k + 1 calls of next())
const NTH: [usize; 3] = [1, 2, 40];

/// one nth(k) on the real iterator; the model takes k + 1 steps
fn step_nth(real: &CronSchedule, sets: &Sets, clock: i64, last: Option<i64>, k: usize) -> (CronSchedule, Option<i64>, Option<String>) {
    let mut it = real.clone();
    pin_clock(clock);
    let now_min = clock.div_euclid(60) + EPOCH_MIN;
    let mut after = last.map_or(now_min, |l| l.max(now_min));
    let mut want = None;
    for _ in 0..=k {
        want = rc::next_after(sets, after);
        match want {
            Some(w) => after = w,
            None => break,
        }
    }
    let got = call(|| {
        it.nth(k).map(|x| {
            let ts = x.timestamp();
            (ts, x.second(), x.nano())
        })
    });
    match (want, &got) {
        (Some(w), Out::Val(Some((ts, s, n)))) => {
            let gm = ts.div_euclid(60) + EPOCH_MIN;
            if gm == w && ts.rem_euclid(60) == 0 && *s == 0 && *n == 0 {
                (it, Some(w), None)
            } else {
                (it, Some(w), Some(format!("nth({}): expected minute {} ({}), observed timestamp {} second {} nano {}", k, w, show_min(w), ts, s, n)))
            }
        }
        (w, g) => (it, last, Some(format!("nth({}): expected {:?}, observed {}", k, w.map(show_min), g.show()))),
    }
}

fn show_min(m: i64) -> String {
    let (y, mo, d) = cal::ymd(m.div_euclid(1440));
    format!("{:04}-{:02}-{:02}T{:02}:{:02}", y, mo, d, m.rem_euclid(1440) / 60, m.rem_euclid(60))
}

impl Model for Machine {
    type State = St;
    type Action = u8;
    fn init_states(&self) -> Vec<St> {
        let mut v = vec![];
        for (k, (s, _)) in self.parsed.iter().enumerate() {
            for &c in &self.starts {
                v.push(St { sched: k, real: s.clone(), clock: c, last: None, bad: None, depth: 0 });
            }
        }
        v
    }
    fn actions(&self, s: &St, a: &mut Vec<u8>) {
        if s.bad.is_none() && s.depth < self.max_depth {
            a.extend(0..9);
            if s.depth >= 1 {
                a.extend([9, 13, 17]); // clone-and-continue with three of the advances
            }
            a.extend([18, 19]); // nth(1), nth(2) without moving the clock
            if s.depth == 0 {
                a.push(20); // nth(40), from the initial states only (41 reference steps each)
            }
        }
    }
    fn next_state(&self, s: &St, a: u8) -> Option<St> {
        crate::machine::PIN.with(|_| ());
        self.transitions.fetch_add(1, Ordering::Relaxed);
        if a >= 18 {
            let (real, last, bad) = step_nth(&s.real, &self.parsed[s.sched].1, s.clock, s.last, NTH[(a - 18) as usize]);
            return Some(St { sched: s.sched, real, clock: s.clock, last, bad, depth: s.depth + 1 });
        }
        let clock = s.clock + ADVANCES[(a % 9) as usize];
        CLONE_FROM_EXPR.with(|e| *e.borrow_mut() = Some(self.exprs[s.sched].clone()));
        let (real, last, bad) = step(&s.real, &self.parsed[s.sched].1, clock, s.last, a >= 9);
        Some(St { sched: s.sched, real, clock, last, bad, depth: s.depth + 1 })
    }
    fn properties(&self) -> Vec<Property<Self>> {
        vec![Property::always("next() is the earliest matching minute after now and after the previous result", |_, s: &St| s.bad.is_none())]
    }
}

fn build(thorough: bool, depth: u8, transitions: Arc<AtomicU64>, errors: &mut Vec<String>) -> Machine {
    let mut parsed = vec![];
    let mut exprs = vec![];
    for e in schedules(thorough) {
        match (CronSchedule::parse(e), rc::parse(e)) {
            (Ok(s), Verdict::Accept(sets)) => {
                if rc::next_after(&sets, starts()[0].div_euclid(60) + EPOCH_MIN).is_some() {
                    parsed.push((s, sets));
                    exprs.push(e.to_string());
                } else {
                    errors.push(format!("menu schedule {:?} is unsatisfiable", e));
                }
            }
            (r, v) => errors.push(format!("menu schedule {:?} does not parse on both sides: real ok={} reference {:?} (C16 decides this)", e, r.is_ok(), matches!(v, Verdict::Accept(_)))),
        }
    }
    Machine { exprs, parsed, starts: starts(), max_depth: depth, transitions }
}

pub fn run(ctx: &Ctx) -> i32 {
    let mut rep = Report::new(ctx);
    rep.rule = "states = distinct (schedule, pinned clock, last result, live iterator) tuples reached by BFS; transitions = real next() calls under a pinned clock, each compared with the brute-force reference 'earliest whole minute later than max(current minute, previous result) whose month, hour, minute match and whose day matches (dom OR dow when both restricted)'; results must carry zero seconds; a copied schedule (clone(), or clone_from() into a freshly parsed one) must continue identically; Iterator::nth(k) (which skip and step_by are built on) must equal k + 1 calls of next()".into();
    rep.assumptions = vec![
        "schedules on which 'restricted' is ambiguous between set-based and star-based reading (*/2 or 1-31 in day-of-month, 0-6 in day-of-week) are not in the menu; unsatisfiable schedules are excluded".into(),
        "start instants lie in 2021-2028, around 2096-2104 (the eight-year gap between leap days at 2100) and in 2400; the calendar functions the iterator uses are covered over the whole range by C01, C02, C04, C05".into(),
    ];
    let depth: u8 = if ctx.thorough { 4 } else { 3 };
    let t0 = std::time::Instant::now();
    let transitions = Arc::new(AtomicU64::new(0));
    let mut errs = vec![];
    let m = build(ctx.thorough, depth, transitions.clone(), &mut errs);
    rep.machinery_errors.extend(errs);
    let (nsched, nstart) = (m.parsed.len(), m.starts.len());
    let names: Vec<String> = schedules(ctx.thorough).iter().map(|s| s.to_string()).collect();
    let threads = std::env::var("MC_SR_THREADS").ok().and_then(|v| v.parse().ok()).unwrap_or(ctx.threads.min(8));
    let checker = m.checker().threads(threads).spawn_bfs().join();
    let unique = checker.unique_state_count() as u64;
    let n_trans = transitions.load(Ordering::Relaxed);
    let mut acc = Acc::default();
    acc.states = unique;
    acc.transitions = n_trans;
    acc.nontrivial = unique;
    if let Some(path) = checker.discovery("next() is the earliest matching minute after now and after the previous result") {
        let states = path.clone().into_states();
        let actions = path.into_actions();
        let init = &states[0];
        acc.violation("CronSchedule::next", &format!("history-of-{}-calls", actions.len()), json!({"schedule": names[init.sched], "start": init.clock, "actions": actions}), "agreement with the reference at every step".into(), states.last().unwrap().bad.clone().unwrap_or_default());
    } else {
        acc.sample(json!({"schedules": nsched, "starts": nstart, "depth": depth, "unique_states": unique, "transitions": n_trans, "example_schedule": names[0], "example_history": "advance 59 s, next, advance 400 d, next, clone, next"}));
        acc.branch_n("histories-completed", unique);
        if (ctx.thorough && unique < 3_000_000) || unique < 150_000 {
            let mut e2 = vec![];
            let c2 = build(ctx.thorough, depth, Arc::new(AtomicU64::new(0)), &mut e2).checker().threads(1).spawn_bfs().join();
            if c2.unique_state_count() as u64 != unique {
                rep.machinery_errors.push(format!("C17: unique state count differs between runs ({} vs {})", unique, c2.unique_state_count()));
            }
        }
    }
    // ---- every history once more as one uninterrupted execution on one thread (state the
    // implementation keeps outside the schedule value travels along the path only this way)
    {
        let pdepth: u32 = if ctx.thorough { 3 } else { 2 };
        let scheds = schedules(ctx.thorough);
        let st = starts();
        let parsed: Vec<Option<Sets>> = scheds.iter().map(|e| match rc::parse(e) { Verdict::Accept(s) => Some(s), _ => None }).collect();
        let na = 15u64;
        let per = na.pow(pdepth);
        let total = scheds.len() as u64 * st.len() as u64 * per;
        rep.sweep(&format!("E2:path re-execution, cron machine depth {}: {} schedules x {} starts x 15^{} action sequences", pdepth, scheds.len(), st.len(), pdepth), total, "parse, then the whole action sequence in one piece on one thread", |i, acc| {
            let si = (i / (per * st.len() as u64)) as usize;
            let sets = match &parsed[si] {
                Some(s) => s,
                None => return,
            };
            let start = st[(i / per % st.len() as u64) as usize];
            if rc::next_after(sets, start.div_euclid(60) + EPOCH_MIN).is_none() {
                return;
            }
            let mut real = match CronSchedule::parse(scheds[si]) {
                Ok(r) => r,
                Err(_) => return,
            };
            CLONE_FROM_EXPR.with(|e| *e.borrow_mut() = Some(scheds[si].to_string()));
            let mut k = i % per;
            let (mut clock, mut last) = (start, None);
            let mut actions = vec![];
            for _ in 0..pdepth {
                let a = (k % na) as u8;
                k /= na;
                // the same 15 actions as the machine: 0..9 advance+next, 9/13/17 clone-and-continue, 18..20 nth
                let a = match a { 9 => 9, 10 => 13, 11 => 17, 12 => 18, 13 => 19, 14 => 20, x => x };
                if a == 20 && !actions.is_empty() {
                    return;
                }
                actions.push(a);
                acc.transitions += 1;
                let (r, l, bad) = if a >= 18 {
                    step_nth(&real, sets, clock, last, NTH[(a - 18) as usize])
                } else {
                    clock += ADVANCES[(a % 9) as usize];
                    step(&real, sets, clock, last, a >= 9)
                };
                if let Some(b) = bad {
                    acc.violation("CronSchedule::next", &format!("path-of-{}-executed-in-one-piece", actions.len()), json!({"schedule": scheds[si], "start": start, "actions": actions}), "agreement with the reference at every step".into(), b);
                    return;
                }
                real = r;
                last = l;
            }
            acc.states += 1;
            acc.branch("path-completed");
        });
        // ---- the first match from every day of two years (a common and a leap year) for every
        // single-month and every single-day-of-month schedule
        let firsts: Vec<String> = (1..=12).map(|m| format!("0 0 * {} *", m)).chain((1..=31).map(|d| format!("30 6 {} * *", d))).collect();
        let day0 = cal::days_from_civil(2023, 1, 1);
        let ndays = 731u64;
        rep.sweep("first match from 10:20:30 of every day of 2023-2024 x {12 single-month, 31 single-day-of-month schedules}", firsts.len() as u64 * ndays, "the skip to the next month / next matching day from every position in the year", |i, acc| {
            let expr = &firsts[(i / ndays) as usize];
            let start = (day0 + (i % ndays) as i64 - cal::DAYS_TO_1970) * 86_400 + 10 * 3600 + 20 * 60 + 30;
            if let (Ok(real), Verdict::Accept(sets)) = (CronSchedule::parse(expr), rc::parse(expr)) {
                acc.transitions += 1;
                acc.states += 1;
                let (_, _, bad) = step(&real, &sets, start, None, false);
                if let Some(b) = bad {
                    acc.violation("CronSchedule::next", "first-match-from-a-day-of-the-year", json!({"schedule": expr, "start": start, "actions": [0]}), "agreement with the reference".into(), b);
                }
                acc.branch("first-match");
            }
        });
    }
    astrolabe::verif_hooks::set_now(None);
    let name = format!("E2:stateright cron machine depth {} ({} schedules x {} starts)", depth, nsched, nstart);
    rep.extra.insert(name.clone(), json!({"unique_states": unique, "transitions": n_trans, "max_depth": checker.max_depth(), "actions_per_state": 15, "schedules": nsched, "starts": nstart}));
    rep.acc.merge(acc);
    rep.spaces.push(Space { name, size: unique, exhaustive: true, wall_s: t0.elapsed().as_secs_f64(), note: format!("BFS over every history of (advance the clock by one of 9 amounts, next) up to the depth, plus clone-and-continue; {} transitions", n_trans) });
    eprintln!("[C17 {}] E2 cron machine unique={} transitions={} {:.1}s", PROFILE, unique, n_trans, t0.elapsed().as_secs_f64());
    rep.finish()
}

pub fn replay(_op: &str, case: &Value, acc: &mut Acc) -> bool {
    let expr = case["schedule"].as_str().unwrap();
    let (mut real, sets) = match (CronSchedule::parse(expr), rc::parse(expr)) {
        (Ok(s), Verdict::Accept(sets)) => (s, sets),
        _ => return false,
    };
    CLONE_FROM_EXPR.with(|e| *e.borrow_mut() = Some(expr.to_string()));
    let mut clock = case["start"].as_i64().unwrap();
    let mut last = None;
    for (k, a) in case["actions"].as_array().unwrap().iter().enumerate() {
        let a = a.as_u64().unwrap() as u8;
        if a < 18 {
            clock += ADVANCES[(a % 9) as usize];
        }
        let (r, l, bad) = if a >= 18 { step_nth(&real, &sets, clock, last, NTH[(a - 18) as usize]) } else { step(&real, &sets, clock, last, a >= 9) };
        if let Some(b) = bad {
            acc.violation("CronSchedule::next", &format!("history-step-{}", k), case.clone(), "agreement with the reference".into(), b);
            return true;
        }
        real = r;
        last = l;
    }
    true
}
