//! C08 — clock time is arithmetic modulo 24 h with one canonical value per time of day (E1 + E2).
use crate::alphabets as ab;
use crate::engine::{call, Acc, Ctx, Out, Report, PROFILE};
use crate::machine::{self, tm_apply, tm_expect, tm_judge, tm_op_name, TmOp};
use crate::real::{dt_from_off, off_secs, time_from};
use crate::refmodel::calendar as cal;
use astrolabe::errors::AstrolabeError;
use astrolabe::{OffsetUtilities, Time, TimeUtilities};
use serde_json::{json, Value};

fn case_op(nanos: u64, off: i32, op: &TmOp, acc: &mut Acc) {
    case_op_d(nanos, off, op, true, acc)
}

/// `display`: also compare rendered fields on a 1/16 lattice of the cases (not on the complete count axis)
fn case_op_d(nanos: u64, off: i32, op: &TmOp, display: bool, acc: &mut Acc) {
    let t = time_from(nanos, off).unwrap();
    acc.transitions += 1;
    acc.states += 1;
    let exp = tm_expect(nanos, off, op);
    let got = tm_apply(&t, op);
    if exp.0 != nanos {
        acc.nontrivial += 1;
    }
    if let Some(d) = crate::machine::tm_judge_opt(&got, exp, display && (nanos / 1_000_000_000 + exp.0) % 16 == 0) {
        let class = match (&got, op) {
            (Out::Panic(_), _) => "panic",
            (Out::Val(v), _) if v.as_nanos() >= ab::DAY_NS => "not-below-one-day",
            (Out::Val(v), _) if off_secs(v.get_offset()) != exp.1 => "offset-not-kept",
            _ => "wrong-time",
        };
        acc.violation(&tm_op_name(op), class, json!({"kind": "op", "nanos": nanos.to_string(), "off": off, "op": machine::tm_op_to_json(op)}), format!("nanos {} offset {}", exp.0, exp.1), d);
    }
    if let Some(assigned) = machine::tm_apply_assign(&t, op) {
        acc.transitions += 1;
        let same = match (&got, &assigned) {
            (Out::Val(a), Out::Val(b)) => format!("{:?}", a) == format!("{:?}", b),
            (Out::Panic(_), Out::Panic(_)) => true,
            _ => false,
        };
        if !same {
            acc.violation(&format!("{} (assign form)", tm_op_name(op)), "assign-form-differs-from-operator", json!({"kind": "op", "nanos": nanos.to_string(), "off": off, "op": machine::tm_op_to_json(op)}), got.show(), assigned.show());
        }
    }
    let wrapped = match op {
        TmOp::Unit(o, n) => {
            let d = *n as u128 * crate::props::c04::UNITS[o / 2 + 1].1 as u128;
            if o % 2 == 0 { nanos as u128 + d >= ab::DAY_NS as u128 } else { d > nanos as u128 }
        }
        _ => false,
    };
    acc.branch(if wrapped { "wraps-around-midnight" } else { "stays-within-day" });
}

const SETTER_NAMES: [&str; 12] = ["set_hour", "set_minute", "set_second", "set_milli", "set_micro", "set_nano", "clear_until_hour", "clear_until_minute", "clear_until_second", "clear_until_milli", "clear_until_micro", "clear_until_nano"];

/// A Time produced by a field setter or a clear_until_* call (any offset) is still a time of day below
/// 24:00:00, keeps its offset and is the canonical value (equal to the Time built from its own nanoseconds).
/// Whether the setter accepted or refused the value is not judged here (C15), nor which field it set (C09).
fn case_setter(nanos: u64, off: i32, kind: usize, value: u32, acc: &mut Acc) {
    let t = time_from(nanos, off).unwrap();
    acc.transitions += 1;
    acc.states += 1;
    let got: Out<Time> = match kind {
        0 => crate::engine::call_res(|| t.set_hour(value)),
        1 => crate::engine::call_res(|| t.set_minute(value)),
        2 => crate::engine::call_res(|| t.set_second(value)),
        3 => crate::engine::call_res(|| t.set_milli(value)),
        4 => crate::engine::call_res(|| t.set_micro(value)),
        5 => crate::engine::call_res(|| t.set_nano(value)),
        6 => call(|| t.clear_until_hour()),
        7 => call(|| t.clear_until_minute()),
        8 => call(|| t.clear_until_second()),
        9 => call(|| t.clear_until_milli()),
        10 => call(|| t.clear_until_micro()),
        _ => call(|| t.clear_until_nano()),
    };
    let case = || json!({"kind": "setter", "nanos": nanos.to_string(), "off": off, "setter": kind, "value": value});
    let op = format!("Time::{}", SETTER_NAMES[kind.min(11)]);
    match &got {
        Out::Panic(m) => acc.violation(&op, "setter-panic", case(), "a Time below 24:00:00 or an error".into(), format!("PANIC({})", m)),
        Out::Err(_) => acc.branch("setter-refused"),
        Out::Val(v) => {
            acc.branch("setter-accepted");
            let n = v.as_nanos();
            if n != nanos {
                acc.nontrivial += 1;
            }
            if n >= ab::DAY_NS {
                acc.violation(&op, "setter-not-below-one-day", case(), format!("as_nanos() < {}", ab::DAY_NS), format!("as_nanos() = {}", n));
            } else if off_secs(v.get_offset()) != off {
                acc.violation(&op, "setter-offset-not-kept", case(), format!("offset {}", off), format!("offset {}", off_secs(v.get_offset())));
            } else if let Some(c) = time_from(n, off) {
                if *v != c || format!("{:?}", v) != format!("{:?}", c) {
                    acc.violation(&op, "setter-not-canonical", case(), format!("{:?}", c), format!("{:?}", v));
                }
            }
        }
    }
}

fn case_from_dt(day: i64, nod: u64, off: i32, acc: &mut Acc) {
    let dt = match dt_from_off(day, nod, off) {
        Some(d) => d,
        None => return,
    };
    acc.transitions += 2;
    acc.states += 1;
    for by_ref in [false, true] {
        let got = call(|| if by_ref { Time::from(&dt) } else { Time::from(dt) });
        if let Some(d) = tm_judge(&got, (nod, off)) {
            acc.violation("Time::from(DateTime)", if day < 0 { "before-0001-01-01" } else { "ad" }, json!({"kind": "from_dt", "day": day, "nod": nod.to_string(), "off": off}), format!("nanos {} offset {}", nod, off), d);
        }
    }
    acc.branch(if day < 0 { "from-datetime-bc" } else { "from-datetime-ad" });
}

fn case_ctor_nanos(n: u64, acc: &mut Acc) {
    acc.transitions += 1;
    acc.states += 1;
    let got = call(|| Time::from_nanos(n).map(|t| t.as_nanos()));
    let ok = match (&got, n < ab::DAY_NS) {
        (Out::Val(Ok(g)), true) => *g == n,
        (Out::Val(Err(AstrolabeError::OutOfRange(_))), false) => true,
        _ => false,
    };
    if !ok {
        acc.violation("Time::from_nanos", "accepts-exactly-the-day", json!({"kind": "ctor_nanos", "n": n.to_string()}), if n < ab::DAY_NS { "Ok".into() } else { "Err(OutOfRange)".into() }, format!("{:?}", got));
    }
    acc.branch(if n < ab::DAY_NS { "ctor-accepted" } else { "ctor-refused" });
}

fn case_ctor_seconds(s: u32, acc: &mut Acc) {
    acc.transitions += 1;
    acc.states += 1;
    let got = call(|| Time::from_seconds(s).map(|t| (t.as_seconds(), t.as_nanos(), t.as_hms())));
    let ok = match (&got, s < 86_400) {
        (Out::Val(Ok((a, b, c))), true) => *a == s && *b == s as u64 * 1_000_000_000 && *c == (s / 3600, s / 60 % 60, s % 60),
        (Out::Val(Err(AstrolabeError::OutOfRange(_))), false) => true,
        _ => false,
    };
    if !ok {
        acc.violation("Time::from_seconds", "accepts-exactly-the-day", json!({"kind": "ctor_seconds", "s": s}), if s < 86_400 { "Ok".into() } else { "Err(OutOfRange)".into() }, format!("{:?}", got));
    }
    acc.branch(if s < 86_400 { "ctor-accepted" } else { "ctor-refused" });
}

thread_local! {
    /// the valid triple accepted just before on this thread (recorded so that a replay repeats the history)
    static PRE_ANCHOR: std::cell::Cell<Option<(u32, u32, u32)>> = std::cell::Cell::new(None);
}

fn case_ctor_hms(h: u32, m: u32, s: u32, acc: &mut Acc) {
    acc.transitions += 1;
    acc.states += 1;
    let got = call(|| Time::from_hms(h, m, s).map(|t| t.as_nanos()));
    let valid = h <= 23 && m <= 59 && s <= 59;
    let ok = match (&got, valid) {
        (Out::Val(Ok(n)), true) => *n == (h as u64 * 3600 + m as u64 * 60 + s as u64) * 1_000_000_000,
        (Out::Val(Err(AstrolabeError::OutOfRange(_))), false) => true,
        _ => false,
    };
    if !ok {
        acc.violation("Time::from_hms", "accepts-exactly-the-day", json!({"kind": "ctor_hms", "args": [h, m, s], "after": PRE_ANCHOR.with(|a| a.get()).map(|(x, y, z)| vec![x, y, z])}), if valid { "Ok".into() } else { "Err(OutOfRange)".into() }, format!("{:?}", got));
    }
    acc.branch(if valid { "ctor-accepted" } else { "ctor-refused" });
}

/// a Time obtained from text: whatever Time::parse / from_str accept must lie inside the day
fn case_parse_inside_day(input: &str, pattern: &str, acc: &mut Acc) {
    use std::str::FromStr;
    acc.transitions += 1;
    acc.states += 1;
    let got = if pattern.is_empty() { call(|| Time::from_str(input).map(|t| (t.as_nanos(), t.as_hms())).map_err(|e| e.to_string())) } else { call(|| Time::parse(input, pattern).map(|t| (t.as_nanos(), t.as_hms())).map_err(|e| e.to_string())) };
    match &got {
        Out::Val(Ok((n, (h, m, sec)))) if *n < ab::DAY_NS && *h < 24 && *m < 60 && *sec < 60 => acc.branch("parsed-inside-the-day"),
        Out::Val(Err(_)) => acc.branch("parse-refused"),
        other => acc.violation(if pattern.is_empty() { "Time::from_str" } else { "Time::parse" }, "time-outside-the-day-or-panic", json!({"kind": "parse", "input": input, "pattern": pattern}), "Err, or a Time below 24:00:00".into(), other.show()),
    }
}

pub fn run(ctx: &Ctx) -> i32 {
    let mut rep = Report::new(ctx);
    rep.rule = "states = distinct (time, offset, operation, amount) tuples and E2 machine states; transitions = real calls compared with (t +/- amount) mod 86 400e9 ns (offset kept), plus the invariant as_nanos() < one day and equality with / same display as the canonical Time on every result; non-trivial = results different from the receiver".into();
    rep.assumptions = vec!["random nanoseconds of the quantifier are replaced by every second of the day x sub-second boundary values and a complete count axis (thorough) / 1/65537 count lattice (quick)".into()];
    rep.require(&["wraps-around-midnight", "stays-within-day", "from-datetime-bc", "from-datetime-ad", "ctor-accepted", "ctor-refused", "parsed-inside-the-day", "parse-refused", "setter-accepted", "setter-refused"]);
    let checked = PROFILE == "checked";
    let counts = ab::counts_b();
    let nc = counts.len() as u64;
    let subs: Vec<u64> = if ctx.thorough { vec![0, 1, 999, 1_000, 999_999, 1_000_000, 999_999_999] } else { vec![0, 1, 999_999_999] };
    let ns = subs.len() as u64;
    let offs = [0i32, 3600, -86_399];
    rep.sweep("unit-ops:86400 seconds x sub-second bounds x COUNTS_B x 12 ops", 86_400 * ns * nc * 12, "every second of the day; offset cycles through {0,+3600,-86399} with the index", |i, acc| {
        let op = (i % 12) as usize;
        let mut r = i / 12;
        let c = counts[(r % nc) as usize];
        r /= nc;
        let sub = subs[(r % ns) as usize];
        let sec = r / ns;
        case_op(sec * 1_000_000_000 + sub, offs[(i % 3) as usize], &TmOp::Unit(op, c), acc);
        if i % 300_000_007 == 0 {
            acc.sample(json!({"op": tm_op_name(&TmOp::Unit(op, c)), "nanos": sec * 1_000_000_000 + sub, "count": c}));
        }
    });
    let bases = [0u64, 43_200_000_000_001, ab::DAY_NS - 1];
    if ctx.thorough && checked {
        rep.sweep("unit-ops:all-2^32-counts x 12 ops x 3 times", (1u64 << 32) * 36, "complete count axis", |i, acc| {
            let n = (i / 36) as u32;
            let k = i % 36;
            case_op_d(bases[(k / 12) as usize], 0, &TmOp::Unit((k % 12) as usize, n), false, acc);
        });
    } else {
        let step: u64 = if ctx.thorough { 257 } else { 65_537 };
        let phase = ctx.seed % step;
        let n_counts = ((1u64 << 32) - phase + step - 1) / step;
        rep.sweep("unit-ops:count-lattice x 12 ops x 3 times", n_counts * 36, "every k-th u32 count (phase from seed)", move |i, acc| {
            let n = (phase + (i / 36) * step) as u32;
            let k = i % 36;
            case_op(bases[(k / 12) as usize], 0, &TmOp::Unit((k % 12) as usize, n), acc);
        });
    }
    // binary operators: all pairs on the minute grid x {0, 1, 1e9-1}
    let grid: Vec<u64> = (0..1440u64).flat_map(|m| [0u64, 1, 999_999_999].into_iter().map(move |s| m * 60_000_000_000 + s)).collect();
    let ng = grid.len() as u64;
    rep.sweep("Time +/- Time: all pairs of minute-grid x {0,1,1e9-1}", ng * ng * 2, "every ordered pair, both operators", |i, acc| {
        let j = i / 2;
        case_op(grid[(j / ng) as usize], if j % 7 == 0 { 3600 } else { 0 }, &TmOp::Tim(i % 2 == 1, grid[(j % ng) as usize]), acc);
        if i % 9_000_011 == 0 {
            acc.sample(json!({"op": "Time +/- Time", "a": grid[(j / ng) as usize], "b": grid[(j % ng) as usize]}));
        }
    });
    // Time +/- Duration
    let mut durs: Vec<(u64, u32)> = vec![];
    for s in [0u64, 1, 59, 3_599, 3_600, 86_399, 86_400, 86_401, 90_000, 172_800, 1 << 32, 9_223_372_036, 9_223_372_037, 18_446_744_073, 18_446_744_074, u64::MAX / 2, u64::MAX] {
        for n in [0u32, 1, 999_999_999] {
            durs.push((s, n));
        }
    }
    let ndu = durs.len() as u64;
    let tgrid: Vec<u64> = grid.iter().step_by(7).cloned().collect();
    let ntg = tgrid.len() as u64;
    rep.sweep("Time +/- Duration: time grid x Duration menu", ntg * ndu * 2 * 3, "Durations up to u64::MAX seconds; three offsets", |i, acc| {
        let o = offs[(i % 3) as usize];
        let j = i / 3;
        let (s, n) = durs[(j / 2 % ndu) as usize];
        case_op(tgrid[(j / (2 * ndu)) as usize], o, &TmOp::Dur(j % 2 == 1, s, n), acc);
    });
    // set_offset / as_offset keep canonical form
    let ob = ab::offs_b();
    let nob = ob.len() as u64;
    rep.sweep("set_offset/as_offset: time grid x OFFS_B", ntg * nob * 2, "", |i, acc| {
        let j = i / 2;
        let o = ob[(j % nob) as usize];
        case_op(tgrid[(j / nob) as usize], 0, &if i % 2 == 0 { TmOp::SetOff(o) } else { TmOp::AsOff(o) }, acc);
    });
    // field setters and clear_until_* on Times with an offset: the result is still a canonical time of day
    let mut setters: Vec<(usize, u32)> = vec![];
    for h in 0..=24u32 {
        setters.push((0, h));
    }
    for m in 0..=60u32 {
        setters.push((1, m));
        setters.push((2, m));
    }
    for (k, top) in [(3usize, 999u32), (4, 999_999), (5, 999_999_999)] {
        for v in [0, 1, top, top + 1] {
            setters.push((k, v));
        }
    }
    for k in 6..12usize {
        setters.push((k, 0));
    }
    let nset = setters.len() as u64;
    rep.sweep("field setters / clear_until_*: time grid x OFFS_B x every hour, minute, second value and sub-second bounds", ntg * nob * nset, "results of the setters stay below 24:00:00, keep the offset and are canonical", |i, acc| {
        let (k, v) = setters[(i % nset) as usize];
        let j = i / nset;
        case_setter(tgrid[(j / nob) as usize], ob[(j % nob) as usize], k, v, acc);
    });
    // Time::from(DateTime)
    let days = if ctx.thorough { ab::days_b() } else { ab::days_b_small() };
    let nanos = ab::nanos_b();
    let (nd, nn) = (days.len() as u64, nanos.len() as u64);
    rep.sweep("Time::from(DateTime): DAYS x NANOS_B x OFFS_B", nd * nn * nob, "", |i, acc| {
        case_from_dt(days[(i / (nn * nob)) as usize], nanos[(i / nob % nn) as usize], ob[(i % nob) as usize], acc);
    });
    // constructors
    let mut nb: Vec<u64> = vec![0, 1, ab::DAY_NS - 1, ab::DAY_NS, ab::DAY_NS + 1, 2 * ab::DAY_NS, u64::MAX];
    for k in 0..64 {
        nb.push(1u64 << k);
        nb.push((1u64 << k) - 1);
    }
    for unit in [1u128, 1_000, 1_000_000, 1_000_000_000] {
        for j in 1u128..=4 {
            let base = (1u128 << 32) * j * unit;
            for add in [0u128, 1, 86_399 * 1_000_000_000, ab::DAY_NS as u128 - 1] {
                if base + add <= u64::MAX as u128 {
                    nb.push((base + add) as u64);
                }
            }
        }
    }
    rep.sweep("Time::from_nanos: u64 boundaries and wrap-back values", nb.len() as u64, "", |i, acc| case_ctor_nanos(nb[i as usize], acc));
    if ctx.thorough && checked {
        rep.sweep("Time::from_seconds: all 2^32", 1 << 32, "", |i, acc| case_ctor_seconds(i as u32, acc));
    } else {
        rep.sweep("Time::from_seconds: 0..200000 and top 1000", 201_000, "", |i, acc| case_ctor_seconds(if i < 200_000 { i as u32 } else { u32::MAX - (i - 200_000) as u32 }, acc));
    }
    let (hb, mb, sb) = (ab::u32_b(23, 3600), ab::u32_b(59, 60), ab::u32_b(59, 1));
    let (a, b, c) = (hb.len() as u64, mb.len() as u64, sb.len() as u64);
    rep.sweep("Time::from_hms: U32_B(23) x U32_B(59) x U32_B(59)", a * b * c, "", |i, acc| case_ctor_hms(hb[(i / (b * c)) as usize], mb[(i / c % b) as usize], sb[(i % c) as usize], acc));
    // from_hms over a complete small cube, each triple right after a fixed valid triple was accepted on
    // the same thread (the mirror image of the purity probe: whatever accepting the anchor leaves
    // behind must not make an invalid triple pass; the cube is complete, so some triple collides
    // with the anchor under any packed or hashed key)
    let anchors: [(u32, u32, u32); 3] = [(23, 59, 59), (0, 0, 0), (12, 30, 30)];
    rep.sweep("Time::from_hms on the cube 0..=31 x 0..=127 x 0..=127, each right after an accepted anchor triple (3 anchors)", 32 * 128 * 128 * 3, "", |i, acc| {
        let (ah, am, asec) = anchors[(i % 3) as usize];
        let r = i / 3;
        let (h, m, sec) = ((r / (128 * 128)) as u32, (r / 128 % 128) as u32, (r % 128) as u32);
        let _ = call(|| Time::from_hms(ah, am, asec).map(|t| t.as_nanos()));
        PRE_ANCHOR.with(|a| a.set(Some((ah, am, asec))));
        case_ctor_hms(h, m, sec, acc);
        PRE_ANCHOR.with(|a| a.set(None));
    });
    // Times obtained from text: every sequence of one to three sub-second fields (tenths .. nanoseconds)
    // after the clock fields, with digit strings at the top and the bottom of each field, at the ends of the day
    let subs: [(&str, usize); 5] = [("n", 1), ("nn", 2), ("nnn", 3), ("nnnn", 6), ("nnnnn", 9)];
    let mut texts: Vec<(String, String)> = vec![];
    for clock in ["23:59:59", "23:59:56", "00:00:00", "12:00:00", "24:00:00", "23:59:60"] {
        for zone in ["", " +00:00", " -00:01", " +23:59"] {
            for a in 0..5 {
                for b in 0..6 {
                    for c in 0..6 {
                        if b == 5 && c != 5 {
                            continue;
                        }
                        let fields: Vec<usize> = [Some(a), (b < 5).then_some(b), (c < 5).then_some(c)].into_iter().flatten().collect();
                        for fill in ['9', '0', '5'] {
                            let pat = format!("HH:mm:ss {}{}", fields.iter().map(|f| subs[*f].0).collect::<Vec<_>>().join(" "), if zone.is_empty() { "" } else { " xxx" });
                            let inp = format!("{} {}{}", clock, fields.iter().map(|f| fill.to_string().repeat(subs[*f].1)).collect::<Vec<_>>().join(" "), zone);
                            texts.push((inp, pat));
                        }
                    }
                }
            }
        }
        texts.push((clock.to_string(), String::new()));
    }
    rep.sweep("Time from text: one to three sub-second fields x {all 9, all 0, all 5} x 6 clock texts x 4 zones, and from_str", texts.len() as u64, "whatever is accepted must be a time of day below 24:00:00", |i, acc| case_parse_inside_day(&texts[i as usize].0, &texts[i as usize].1, acc));
    machine::run_time_machine(&mut rep, if ctx.thorough { 4 } else { 3 });
    machine::run_time_paths(&mut rep, 3);
    let _ = cal::MIN_DAY;
    rep.finish()
}

pub fn replay(_op: &str, case: &Value, acc: &mut Acc) -> bool {
    match case["kind"].as_str() {
        Some("op") => case_op(case["nanos"].as_str().unwrap().parse().unwrap(), case["off"].as_i64().unwrap() as i32, &machine::tm_op_from_json(&case["op"]).unwrap(), acc),
        Some("setter") => case_setter(case["nanos"].as_str().unwrap().parse().unwrap(), case["off"].as_i64().unwrap() as i32, case["setter"].as_u64().unwrap() as usize, case["value"].as_u64().unwrap() as u32, acc),
        Some("from_dt") => case_from_dt(case["day"].as_i64().unwrap(), case["nod"].as_str().unwrap().parse().unwrap(), case["off"].as_i64().unwrap() as i32, acc),
        Some("ctor_nanos") => case_ctor_nanos(case["n"].as_str().unwrap().parse().unwrap(), acc),
        Some("ctor_seconds") => case_ctor_seconds(case["s"].as_u64().unwrap() as u32, acc),
        Some("ctor_hms") if case["after"].is_array() => {
            let a = &case["after"];
            let _ = call(|| Time::from_hms(a[0].as_u64().unwrap() as u32, a[1].as_u64().unwrap() as u32, a[2].as_u64().unwrap() as u32).map(|t| t.as_nanos()));
            case_ctor_hms(case["args"][0].as_u64().unwrap() as u32, case["args"][1].as_u64().unwrap() as u32, case["args"][2].as_u64().unwrap() as u32, acc)
        }
        Some("ctor_hms") => case_ctor_hms(case["args"][0].as_u64().unwrap() as u32, case["args"][1].as_u64().unwrap() as u32, case["args"][2].as_u64().unwrap() as u32, acc),
        Some("parse") => case_parse_inside_day(case["input"].as_str().unwrap(), case["pattern"].as_str().unwrap(), acc),
        Some("machine") => machine::replay_time(case, acc),
        _ => return false,
    }
    true
}
