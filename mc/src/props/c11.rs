//! C11 — format renders every documented symbol exactly as the documented table says (E1).
use crate::alphabets as ab;
use crate::engine::{call, Acc, Ctx, Out, Report, PROFILE};
use crate::real::{dt_from_off, time_from};
use crate::refmodel::calendar as cal;
use crate::refmodel::format::{render, Kind, DATE_SYMS, TIME_SYMS};
use crate::refmodel::instant as ins;
use astrolabe::{Date, DateUtilities};
use serde_json::{json, Value};

/// kind: 0 Date, 1 Time, 2 DateTime
pub fn real_format(kind: u8, day: i64, nod: u64, off: i32, pattern: &str) -> Option<Out<String>> {
    Some(match kind {
        0 => {
            let d = Date::from_timestamp((day - cal::DAYS_TO_1970) * 86_400);
            call(|| d.format(pattern))
        }
        1 => {
            let t = time_from(nod, off)?;
            call(|| t.format(pattern))
        }
        _ => {
            let x = dt_from_off(day, nod, off)?;
            call(|| x.format(pattern))
        }
    })
}

pub fn local_of(kind: u8, day: i64, nod: u64, off: i32) -> i128 {
    match kind {
        0 => ins::join(day, 0),
        1 => 1000 * ins::DAY + (nod as i128 + off as i128 * ins::NS).rem_euclid(ins::DAY),
        _ => ins::join(day, nod) + off as i128 * ins::NS,
    }
}

fn kind_of(kind: u8) -> Kind {
    [Kind::Date, Kind::Time, Kind::DateTime][kind as usize]
}

fn case_format(kind: u8, day: i64, nod: u64, off: i32, pattern: &str, acc: &mut Acc) {
    let (nod, off) = if kind == 0 { (0, 0) } else { (nod, off) };
    let local = local_of(kind, day, nod, off);
    let want = match render(kind_of(kind), pattern, local, off) {
        Some(w) => w,
        None => {
            acc.branch("unjudged-by-documentation");
            return;
        }
    };
    let got = match real_format(kind, day, nod, off, pattern) {
        Some(g) => g,
        None => return,
    };
    acc.transitions += 1;
    acc.states += 1;
    if want != pattern {
        acc.nontrivial += 1;
    }
    match &got {
        Out::Val(s) if *s == want => acc.branch("rendered"),
        other => {
            let first = pattern.chars().find(|c| DATE_SYMS.contains(*c) || TIME_SYMS.contains(*c)).unwrap_or('-');
            acc.violation(&format!("{}::format", ["Date", "Time", "DateTime"][kind as usize]), &format!("symbol-{}-{}", first, if day < 0 && kind != 1 { "bc" } else { "ad" }), json!({"kind": kind, "day": day, "nod": nod.to_string(), "off": off, "pattern": pattern}), want, other.show());
        }
    }
    // purity probe: one anchor format of the same type after every 8th case (chosen by a hash of the case), the full text anchor after every 512th
    let pred = || json!({"kind": kind, "day": day, "nod": nod.to_string(), "off": off, "pattern": pattern});
    let h = (day as u64).wrapping_mul(31) ^ nod ^ (pattern.len() as u64).wrapping_mul(0x9E37) ^ pattern.bytes().fold(0u64, |a, b| a.wrapping_mul(131).wrapping_add(b as u64));
    if h % 8 == 0 {
        crate::props::anchor::format_light(kind, acc, "format (purity probe)", &pred);
    }
    if h % 512 == 0 {
        crate::props::anchor::text(acc, "format (purity probe)", &pred);
    }
}

pub fn piece_alphabet(kind: u8) -> Vec<String> {
    let mut v: Vec<String> = vec![];
    let syms: String = match kind {
        0 => DATE_SYMS.into(),
        1 => TIME_SYMS.into(),
        _ => format!("{}{}", DATE_SYMS, TIME_SYMS),
    };
    for c in syms.chars() {
        for w in [1usize, 2, 4, 5] {
            v.push(c.to_string().repeat(w));
        }
    }
    for l in ["-", ":", ".", " ", "T", "é", "/"] {
        v.push(l.to_string());
    }
    for q in ["'T'", "'yyyy'", "'a b'", "''", "'o''clock'"] {
        v.push(q.to_string());
    }
    v
}

fn values() -> Vec<(i64, u64, i32)> {
    let d = |y: i64, m: u32, dd: u32| cal::valid_day(y, m, dd).unwrap();
    vec![
        (d(2022, 5, 2), 55_820_123_456_789, 0),
        (d(2022, 5, 2), 0, 0),
        (d(2022, 5, 2), 43_200_000_000_000, 0),
        (d(2021, 1, 3), 43_200_000_000_001, 19_800),
        (d(2018, 12, 31), 86_399_999_999_999, -28_378),
        (d(2024, 2, 29), 3_600_000_000_000, 3600),
        (d(1, 1, 1), 1, 0),
        (d(-1, 12, 31), 86_399_000_000_000, 0),
        (d(-5, 3, 15), 47_000_000_000_000, -3600),
        (d(-401, 7, 4), 12 * 3_600_000_000_000 + 59 * 60_000_000_000, 0),
        (d(12_345, 10, 10), 600_000_000_000, 86_399),
        (d(-12_345, 11, 30), 36_000_000_000_000, -86_399),
        (d(99, 9, 9), 9 * 3_600_000_000_000 + 9 * 60_000_000_000 + 9_009_009_009, 60),
        (d(1970, 1, 1), 0, 0),
        (d(2000, 12, 31), 23 * 3_600_000_000_000, 1800),
        (d(999, 6, 7), 13 * 3_600_000_000_000 + 1, 0),
        (d(2023, 8, 20), 100_000_000, 0),
        (d(1900, 2, 28), 86_399_999_999_999, 43_200),
        (d(5_879_610, 3, 3), 1_000_000_000, 0),
        (d(-5_879_610, 4, 4), 2_000_000_000, 0),
        // local time exactly midnight / one nanosecond before it, reached through an offset
        (d(2022, 5, 3), 5 * 3_600_000_000_000, -18_000),
        (d(2022, 5, 2), 86_400_000_000_000 - 7_200_000_000_000, 7_200),
        (d(2000, 1, 1), 3_661_000_000_000, -3_661),
        (d(-1, 12, 31), 86_400_000_000_000 - 1_000_000_000, 1),
        (d(1, 1, 1), 0, -1),
        (d(2024, 2, 29), 28_378_000_000_000 - 1, -28_378),
        (d(2024, 3, 1), 43_200_000_000_000, -43_200),
        (d(2024, 12, 31), 43_200_000_000_000, 43_200),
    ]
}

pub fn run(ctx: &Ctx) -> i32 {
    let mut rep = Report::new(ctx);
    rep.rule = "states = distinct (value, offset, pattern) tuples judged; transitions = real format() calls compared with a renderer written from the documented symbol table; non-trivial = outputs that differ from the pattern text".into();
    rep.assumptions = vec![
        "unjudged (documentation silent): unbalanced quotes, three or more consecutive apostrophes, NUL, symbols of another type (H in Date::format), yy for negative years, noon/midnight within the first second when the sub-second part is non-zero".into(),
        "over-long runs fall back to the width marked * in the table; y has unlimited width".into(),
    ];
    rep.require(&["rendered", "unjudged-by-documentation", "display"]);
    let checked = PROFILE == "checked";
    // (a) single tokens, widths 1..=10
    let mut days = ab::window_days();
    days.extend(ab::days_b());
    days.sort();
    days.dedup();
    let nd = days.len() as u64;
    let dsyms: Vec<char> = DATE_SYMS.chars().collect();
    rep.sweep("single date tokens: 8 symbols x widths 1..=10 x window+landmark days x {Date, DateTime}", nd * 8 * 10 * 2, "", |i, acc| {
        let kind = if i % 2 == 0 { 0 } else { 2 };
        let w = (i / 2 % 10) as usize + 1;
        let c = dsyms[(i / 20 % 8) as usize];
        let day = days[(i / 160) as usize];
        case_format(kind, day, 45_296_789_000_000, if i % 3 == 0 { 3600 } else { 0 }, &c.to_string().repeat(w), acc);
        if i % 2_000_003 == 0 {
            acc.sample(json!({"pattern": c.to_string().repeat(w), "date": cal::ymd(day)}));
        }
    });
    let tsyms: Vec<char> = TIME_SYMS.chars().filter(|c| *c != 'X' && *c != 'x').collect();
    let subs: Vec<u64> = if ctx.thorough { vec![0, 1, 999_999_999, 123_456_789] } else { vec![0, 123_456_789] };
    let nsub = subs.len() as u64;
    rep.sweep("single time tokens: 9 symbols x widths 1..=10 x every second x sub-second bounds x {Time, DateTime}", 86_400 * nsub * 9 * 10 * 2, "", |i, acc| {
        let kind = if i % 2 == 0 { 1 } else { 2 };
        let w = (i / 2 % 10) as usize + 1;
        let c = tsyms[(i / 20 % 9) as usize];
        let r = i / 180;
        let nod = (r / nsub) * 1_000_000_000 + subs[(r % nsub) as usize];
        case_format(kind, 738_000, nod, 0, &c.to_string().repeat(w), acc);
    });
    let off_step = if ctx.thorough && checked { 1 } else { 7 };
    let noff = 172_799 / off_step;
    rep.sweep("zone tokens: X/x x widths 1..=10 x offset axis x {Time, DateTime}", noff * 2 * 10 * 2, "every offset (thorough) / every 7th second plus whole minutes", move |i, acc| {
        let kind = if i % 2 == 0 { 1 } else { 2 };
        let w = (i / 2 % 10) as usize + 1;
        let c = if i / 20 % 2 == 0 { 'X' } else { 'x' };
        let o = ((i / 40) * off_step) as i32 - 86_399;
        case_format(kind, 738_000, 45_296_000_000_000, o, &c.to_string().repeat(w), acc);
        // whole minutes as well when on the lattice
        if off_step != 1 {
            let om = o / 60 * 60;
            case_format(kind, 738_000, 45_296_000_000_000, om, &c.to_string().repeat(w), acc);
        }
    });
    // (b) composite patterns
    let vals = values();
    let nv = vals.len() as u64;
    for kind in 0..3u8 {
        let pieces = piece_alphabet(kind);
        let np = pieces.len() as u64;
        let depth3 = true;
        let total = if depth3 { np * np * np } else { np * np };
        rep.sweep(&format!("composite patterns ({}): every sequence of <= {} pieces from {} pieces x 28 values", ["Date", "Time", "DateTime"][kind as usize], if depth3 { 3 } else { 2 }, np), total * nv, "adjacent equal letters merge into one run (part of the reference tokenizer)", |i, acc| {
            let (d, n, o) = vals[(i % nv) as usize];
            let mut k = i / nv;
            let mut pat = String::new();
            let parts = if depth3 { 3 } else { 2 };
            for _ in 0..parts {
                pat.push_str(&pieces[(k % np) as usize]);
                k /= np;
            }
            case_format(kind, d, n, o, &pat, acc);
            if i % 20_000_003 == 0 {
                acc.sample(json!({"kind": kind, "pattern": pat, "value": [d, n, o]}));
            }
        });
    }
    // (c) literal characters that alias a symbol (same low byte as the symbol's ASCII code, in four
    // Unicode blocks) or are 2-, 3- and 4-byte characters, directly after a symbol run or quoted text
    let mut lits: Vec<char> = vec!['é', '年', '€', '😀', 'ſ', 'ı', '\u{212A}'];
    for b in format!("{}{}'", DATE_SYMS, TIME_SYMS).bytes() {
        for block in [0x100u32, 0x200, 0x400, 0x1E00] {
            if let Some(c) = char::from_u32(block + b as u32) {
                lits.push(c);
            }
        }
    }
    let nl = lits.len() as u64;
    for kind in 0..3u8 {
        let pieces = piece_alphabet(kind);
        let np = pieces.len() as u64;
        let lits = lits.clone();
        rep.sweep(&format!("aliasing literals ({}): every piece x {} literal characters x {{end, same piece again}} x 4 values", ["Date", "Time", "DateTime"][kind as usize], nl), np * nl * 2 * 4, "a non-symbol character is a literal whatever its code point", |i, acc| {
            let (d, n, o) = vals[(i % 4) as usize * 5];
            let again = i / 4 % 2 == 1;
            let lit = lits[(i / 8 % nl) as usize];
            let piece = &pieces[(i / (8 * nl)) as usize];
            let pat = format!("{}{}{}", piece, lit, if again { piece.as_str() } else { "" });
            case_format(kind, d, n, o, &pat, acc);
        });
    }
    // (d) Display impls: the documented default patterns, on the value set (with offsets)
    rep.sweep("Display: Date / Time / DateTime to_string() on the value set", vals.len() as u64 * 3, "yyyy/MM/dd, HH:mm:ss, yyyy/MM/dd HH:mm:ss in the value's offset", |i, acc| {
        let kind = (i % 3) as u8;
        let (d, n, o) = vals[(i / 3) as usize];
        let (n, o) = if kind == 0 { (0, 0) } else { (n, o) };
        let pat = ["yyyy/MM/dd", "HH:mm:ss", "yyyy/MM/dd HH:mm:ss"][kind as usize];
        let want = render(kind_of(kind), pat, local_of(kind, d, n, o), o).unwrap();
        let got = match kind {
            0 => call(|| Date::from_timestamp((d - cal::DAYS_TO_1970) * 86_400).to_string()),
            1 => match time_from(n, o) {
                Some(t) => call(|| t.to_string()),
                None => return,
            },
            _ => match dt_from_off(d, n, o) {
                Some(x) => call(|| x.to_string()),
                None => return,
            },
        };
        acc.transitions += 1;
        acc.states += 1;
        if got != Out::Val(want.clone()) {
            acc.violation(&format!("{}::to_string", ["Date", "Time", "DateTime"][kind as usize]), if o == 0 { "display-utc" } else { "display-with-offset" }, json!({"kind": kind, "day": d, "nod": n.to_string(), "off": o, "pattern": format!("<Display> {}", pat)}), want, got.show());
        }
        acc.branch("display");
    });
    // (c) every pattern string of length <= 6 over a small alphabet rich in quotes: tokenizer / quoting depth
    let sigma = ["y", "M", "H", "'", "-", "é", "d"];
    let npat = crate::props::c14::count_strings(7, 6);
    let v3 = [vals[0], vals[8], vals[20]];
    rep.sweep("quoting: every pattern of length <= 6 over {y M H ' - é d} x 3 values x {Date, Time, DateTime}", npat * 9, "patterns the documentation does not determine (unbalanced quotes, three consecutive apostrophes) are skipped by the reference", |i, acc| {
        let pat = crate::props::c14::nth_string(&sigma, 6, i / 9);
        let (d, n, o) = v3[(i / 3 % 3) as usize];
        case_format((i % 3) as u8, d, n, o, &pat, acc);
    });
    rep.finish()
}

pub fn replay(_op: &str, case: &Value, acc: &mut Acc) -> bool {
    if case["pattern"].as_str().map_or(false, |p| p.starts_with("<Display>")) {
        return false;
    }
    case_format(case["kind"].as_u64().unwrap() as u8, case["day"].as_i64().unwrap(), case["nod"].as_str().unwrap().parse().unwrap(), case["off"].as_i64().unwrap() as i32, case["pattern"].as_str().unwrap(), acc);
    true
}
