//! Purity probes: fixed, well-known anchor cases that are evaluated again after every case of a
//! sweep. Whatever the sweep's calls leave behind (a memo, a cache, a scratch value) must not change
//! the anchor's answer. A violation carries the case that was evaluated just before (the history of
//! two calls replays by replaying that case, which ends with the same probe).
use crate::engine::{call, Acc, Out};
use astrolabe::{CronSchedule, Date, DateTime, DateUtilities, OffsetUtilities, Time, TimeUtilities};
use serde_json::Value;
use std::str::FromStr;

/// deterministic hash used to choose on which cases a probe runs
pub fn hash(parts: &[u64]) -> u64 {
    let mut h = 0xCBF2_9CE4_8422_2325u64;
    for p in parts {
        h = (h ^ p).wrapping_mul(0x0000_0100_0000_01B3);
        h ^= h >> 29;
    }
    h
}
pub fn hash_str(s: &str) -> u64 {
    s.bytes().fold(0xCBF2_9CE4_8422_2325u64, |h, b| (h ^ b as u64).wrapping_mul(0x0000_0100_0000_01B3))
}

/// format / parse / Display / FromStr of one Date, one Time and one DateTime
pub fn text(acc: &mut Acc, op: &str, pred_case: &dyn Fn() -> Value) {
    acc.transitions += 1;
    let got = call(|| {
        let d = Date::from_ymd(2022, 5, 2).unwrap();
        let t = Time::from_hms(13, 5, 9).unwrap().add_nanos(123_456_789);
        let x = DateTime::from_ymdhms(-44, 3, 15, 23, 59, 58).unwrap().add_nanos(7);
        let a = d.format("yyyy-MM-dd 'W'ww e D q MMM");
        let b = t.format("HH:mm:ss.nnnnn hh a");
        let c = x.format("yyyy-MM-dd'T'HH:mm:ss.nnnnn G");
        let pd = Date::parse("2022-05-02", "yyyy-MM-dd").map(|v| v.as_ymd()).map_err(|e| e.to_string());
        let pt = Time::parse("13:05:09.123456789 +01:30", "HH:mm:ss.nnnnn xxx").map(|v| v.as_nanos()).map_err(|e| e.to_string());
        let px = DateTime::parse("2022-05-02 12:32:01 -05:00", "yyyy-MM-dd HH:mm:ss xxx").map(|v| (v.timestamp(), v.hour())).map_err(|e| e.to_string());
        let fs = DateTime::from_str("2022-05-02T12:32:01.25+02:00").map(|v| (v.timestamp(), v.nano())).map_err(|e| e.to_string());
        (a, b, c, pd, pt, px, fs, d.to_string(), x.to_string())
    });
    let want = (
        "2022-05-02 W18 2 122 2 May".to_string(),
        "13:05:09.123456789 01 PM".to_string(),
        "-0044-03-15T23:59:58.000000007 BC".to_string(),
        Ok((2022, 5, 2)),
        Ok(41_709_123_456_789u64),
        Ok((1_651_512_721i64, 12u32)),
        Ok((1_651_487_521i64, 250_000_000u32)),
        "2022/05/02".to_string(),
        "-0044/03/15 23:59:58".to_string(),
    );
    if got != Out::Val(want.clone()) {
        acc.violation(op, "anchor-answered-differently-after-another-case", pred_case(), format!("{:?}", want), got.show());
    }
}

/// one format call of the given type (0 Date, 1 Time, 2 DateTime): cheap enough for every case
pub fn format_light(kind: u8, acc: &mut Acc, op: &str, pred_case: &dyn Fn() -> Value) {
    acc.transitions += 1;
    let (got, want) = match kind {
        0 => (call(|| Date::from_ymd(2022, 5, 2).unwrap().format("yyyy-MM-dd 'W'ww e")), "2022-05-02 W18 2"),
        1 => (call(|| Time::from_hms(13, 5, 9).unwrap().format("HH:mm:ss hh a")), "13:05:09 01 PM"),
        _ => (call(|| DateTime::from_ymdhms(-44, 3, 15, 23, 59, 58).unwrap().format("yyyy-MM-dd'T'HH:mm:ss G")), "-0044-03-15T23:59:58 BC"),
    };
    if got != Out::Val(want.to_string()) {
        acc.violation(op, "anchor-answered-differently-after-another-case", pred_case(), want.to_string(), got.show());
    }
}

/// one parse call of the given type
pub fn parse_light(kind: u8, acc: &mut Acc, op: &str, pred_case: &dyn Fn() -> Value) {
    acc.transitions += 1;
    let ok = match kind {
        0 => call(|| Date::parse("2022-05-02", "yyyy-MM-dd").map(|v| v.as_ymd()).ok()) == Out::Val(Some((2022, 5, 2))),
        1 => call(|| Time::parse("13:05:09 +01:30", "HH:mm:ss xxx").map(|v| v.as_nanos()).ok()) == Out::Val(Some(41_709_000_000_000)),
        _ => call(|| DateTime::parse("2022-05-02 12:32:01 -05:00", "yyyy-MM-dd HH:mm:ss xxx").map(|v| (v.timestamp(), v.hour())).ok()) == Out::Val(Some((1_651_512_721, 12))),
    };
    if !ok {
        acc.violation(op, "anchor-answered-differently-after-another-case", pred_case(), "the anchor text parsed to the anchor value".into(), "another result".into());
    }
}

/// constructors and one cron expression
pub fn values(acc: &mut Acc, op: &str, pred_case: &dyn Fn() -> Value) {
    acc.transitions += 1;
    let got = call(|| {
        let a = Date::from_ymd(2022, 5, 2).map(|v| v.timestamp()).map_err(|_| ());
        let b = Date::from_ymd(2022, 2, 30).map(|v| v.timestamp()).map_err(|_| ());
        let c = DateTime::from_ymdhms(2024, 2, 29, 23, 59, 59).map(|v| v.timestamp()).map_err(|_| ());
        let d = DateTime::from_ymdhms(2023, 13, 1, 0, 0, 0).map(|v| v.timestamp()).map_err(|_| ());
        let e = Time::from_hms(23, 59, 59).map(|v| v.as_nanos()).map_err(|_| ());
        let f = Time::from_hms(24, 0, 0).map(|v| v.as_nanos()).map_err(|_| ());
        let g = DateTime::from_timestamp(-62_135_596_801).as_ymdhms();
        let h = Date::from_ymd(2023, 1, 31).unwrap().add_months(1).as_ymd();
        (a, b, c, d, e, f, g, h)
    });
    let want = (Ok(1_651_449_600i64), Err(()), Ok(1_709_251_199i64), Err(()), Ok(86_399_000_000_000u64), Err(()), (-1, 12, 31, 23, 59, 59), (2023, 2, 28));
    if got != Out::Val(want) {
        acc.violation(op, "anchor-answered-differently-after-another-case", pred_case(), format!("{:?}", want), got.show());
    }
}

/// one cron expression: accepted, and its first two minutes from a pinned instant
pub fn cron(acc: &mut Acc, op: &str, pred_case: &dyn Fn() -> Value) {
    acc.transitions += 1;
    astrolabe::verif_hooks::set_now(Some(std::time::Duration::from_secs(1_651_494_721))); // 2022-05-02T12:32:01Z, a Monday
    let got = call(|| {
        let bad = CronSchedule::parse("*/0 * * * *").is_err();
        let mut s = CronSchedule::parse("*/15 9-17 * * mon-fri").map_err(|_| ())?;
        let a = s.next().map(|x| x.timestamp());
        let b = s.next().map(|x| x.timestamp());
        Ok::<_, ()>((bad, a, b))
    });
    if got != Out::Val(Ok((true, Some(1_651_495_500), Some(1_651_496_400)))) {
        acc.violation(op, "anchor-answered-differently-after-another-case", pred_case(), "rejects */0; 12:45 then 13:00 on 2022-05-02".into(), got.show());
    }
}
