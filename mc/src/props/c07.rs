//! C07 — months_since / years_since count whole calendar months and years (E1, all pairs in windows).
use crate::alphabets as ab;
use crate::engine::{call, Acc, Ctx, Out, Report};
use crate::refmodel::calendar as cal;
use astrolabe::{Date, DateTime, DateUtilities};
use serde_json::{json, Value};

/// reference: whole months from (b, tb) to (a, ta) for a >= b with day(b) <= 28
fn ref_months(a: i64, ta: u64, b: i64, tb: u64) -> i64 {
    let (ya, ma, da) = cal::civil_from_days(a);
    let (yb, mb, db) = cal::civil_from_days(b);
    let mut n = (ya * 12 + ma as i64) - (yb * 12 + mb as i64);
    if (da, ta) < (db, tb) {
        n -= 1;
    }
    n
}

/// the defining property of the reference itself: b (+) n <= a < b (+) (n+1)
fn ref_selfcheck(a: i64, ta: u64, b: i64, tb: u64, n: i64) -> bool {
    let lo = cal::day_add_months(b, n);
    let hi = cal::day_add_months(b, n + 1);
    let le = |x: Option<i64>| x.map(|d| (d, tb) <= (a, ta));
    le(lo) != Some(false) && le(hi) != Some(true) && n >= 0
}

fn date_of(day: i64) -> Date {
    Date::from_timestamp((day - cal::DAYS_TO_1970) * 86_400)
}

fn era_class(a: i64, b: i64) -> &'static str {
    if (a < 0) != (b < 0) {
        "straddling-era"
    } else if a < 0 {
        "bc"
    } else {
        "ad"
    }
}

/// For a fixed b, walk a over [lo, hi]: exact value where defined, antisymmetry, monotonicity.
fn walk_dates(b: i64, lo: i64, hi: i64, acc: &mut Acc) {
    let y = date_of(b);
    let (_, _, db) = cal::civil_from_days(b);
    let mut prev: Option<(i32, i32)> = None;
    for a in lo..=hi {
        acc.transitions += 4;
        acc.states += 1;
        let x = date_of(a);
        let got = call(|| (x.months_since(&y), x.years_since(&y), y.months_since(&x), y.years_since(&x)));
        let case = || json!({"kind": "date", "a": a, "b": b});
        match &got {
            Out::Val((m, yr, mr, yrr)) => {
                if *mr != -*m || *yrr != -*yr {
                    acc.violation("Date::months_since/years_since", &format!("not-antisymmetric-{}", era_class(a, b)), case(), format!("months {} years {}", -*m, -*yr), format!("months {} years {}", mr, yrr));
                }
                if a >= b && db <= 28 {
                    let n = ref_months(a, 0, b, 0);
                    if !ref_selfcheck(a, 0, b, 0, n) {
                        acc.violation("harness", "refmodel-months", case(), "b+n <= a < b+n+1".into(), n.to_string());
                    }
                    if *m as i64 != n {
                        acc.violation("Date::months_since", &format!("wrong-months-{}{}", era_class(a, b), if cal::civil_from_days(a).0 == cal::civil_from_days(b).0 { "-same-year" } else { "" }), case(), n.to_string(), m.to_string());
                    }
                    if *yr as i64 != n / 12 {
                        acc.violation("Date::years_since", &format!("wrong-years-{}", era_class(a, b)), case(), (n / 12).to_string(), yr.to_string());
                    }
                    acc.branch("exact-value-judged");
                    if n > 0 && cal::civil_from_days(a).2 < db {
                        acc.branch("day-borrow");
                        acc.nontrivial += 1;
                    }
                } else if a < b {
                    acc.branch("antisymmetric-side");
                }
                if let Some((pm, py)) = prev {
                    if *m < pm || *yr < py {
                        acc.violation("Date::months_since/years_since", &format!("not-monotone-{}", era_class(a, b)), case(), format!(">= months {} years {} (value at a-1)", pm, py), format!("months {} years {}", m, yr));
                    }
                }
                prev = Some((*m, *yr));
            }
            other => {
                acc.violation("Date::months_since/years_since", "panic", case(), "values".into(), other.show());
                prev = None;
            }
        }
    }
}

const TODS: [u64; 6] = [0, 1, 21_600_000_000_001, 43_200_000_000_000, 72_000_000_000_000, 86_399_999_999_999];

/// offsets carried by the two operands, rotating with the pair: they must not change the result
/// (months are counted on the same calendar add_months works on)
const OFFSET_PAIRS: [(i32, i32); 5] = [(0, 0), (7_200, 0), (-3_600, 7_200), (0, -86_399), (43_200, 43_200)];

fn dt_pair(a: i64, ta: u64, b: i64, tb: u64, acc: &mut Acc) -> Option<(i32, i32)> {
    let (oa, ob) = OFFSET_PAIRS[((a + b) as u64 % 5) as usize];
    let (x, y): (DateTime, DateTime) = match (crate::real::dt_from_off(a, ta, oa), crate::real::dt_from_off(b, tb, ob)) {
        (Some(x), Some(y)) => (x, y),
        _ => return None,
    };
    if oa != 0 || ob != 0 {
        acc.branch("operands-carry-offsets");
    }
    acc.transitions += 4;
    acc.states += 1;
    let got = call(|| (x.months_since(&y), x.years_since(&y), y.months_since(&x), y.years_since(&x)));
    let case = || json!({"kind": "dt", "a": a, "ta": ta.to_string(), "b": b, "tb": tb.to_string(), "offsets": [oa, ob]});
    match &got {
        Out::Val((m, yr, mr, yrr)) => {
            if *mr != -*m || *yrr != -*yr {
                acc.violation("DateTime::months_since/years_since", &format!("not-antisymmetric-{}", era_class(a, b)), case(), format!("months {} years {}", -*m, -*yr), format!("months {} years {}", mr, yrr));
            }
            let (_, _, db) = cal::civil_from_days(b);
            if (a, ta) >= (b, tb) && db <= 28 {
                let n = ref_months(a, ta, b, tb);
                if !ref_selfcheck(a, ta, b, tb, n) {
                    acc.violation("harness", "refmodel-months", case(), "b+n <= a < b+n+1".into(), n.to_string());
                }
                if *m as i64 != n {
                    acc.violation("DateTime::months_since", &format!("wrong-months-{}", era_class(a, b)), case(), n.to_string(), m.to_string());
                }
                if *yr as i64 != n / 12 {
                    acc.violation("DateTime::years_since", &format!("wrong-years-{}", era_class(a, b)), case(), (n / 12).to_string(), yr.to_string());
                }
                if cal::civil_from_days(a).2 == db && ta < tb {
                    acc.branch("time-of-day-borrow");
                    acc.nontrivial += 1;
                }
            }
            Some((*m, *yr))
        }
        other => {
            acc.violation("DateTime::months_since/years_since", "panic", case(), "values".into(), other.show());
            None
        }
    }
}

fn walk_dts(b: i64, tb: u64, lo: i64, hi: i64, acc: &mut Acc) {
    let mut prev: Option<(i32, i32)> = None;
    for a in lo..=hi {
        for ta in TODS {
            let cur = dt_pair(a, ta, b, tb, acc);
            if let (Some((pm, py)), Some((m, y))) = (prev, cur) {
                if m < pm || y < py {
                    acc.violation("DateTime::months_since/years_since", &format!("not-monotone-{}", era_class(a, b)), json!({"kind": "dt", "a": a, "ta": ta.to_string(), "b": b, "tb": tb.to_string()}), format!(">= months {} years {}", pm, py), format!("months {} years {}", m, y));
                }
            }
            prev = cur;
        }
    }
}

pub fn run(ctx: &Ctx) -> i32 {
    let mut rep = Report::new(ctx);
    rep.rule = "states = distinct ordered pairs; transitions = real months_since / years_since calls; for a >= b with day(b) <= 28 the value must be the unique n with b(+)n <= a < b(+)(n+1) under the reference month addition (self-checked on every pair) and years = trunc(n/12); for all pairs antisymmetry and monotonicity in a; non-trivial = pairs needing a day-of-month or time-of-day borrow".into();
    rep.assumptions = vec!["the statement's 'randomly beyond the windows' is replaced by a deterministic lattice: every 4099th day (phase from the seed) paired with every landmark day".into(), "the implementation's add_months is bound to the reference month addition by C05".into()];
    rep.require(&["exact-value-judged", "day-borrow", "antisymmetric-side", "time-of-day-borrow", "operands-carry-offsets"]);
    let yr = |y: i64, first: bool| {
        let a = cal::astro(y).unwrap();
        (if first { cal::days_from_civil(a, 1, 1) } else { cal::days_from_civil(a, 12, 31) }).clamp(cal::MIN_DAY, cal::MAX_DAY)
    };
    let mut wins = vec![(yr(-6, true), yr(6, false)), (yr(1896, true), yr(1905, false)), (yr(2016, true), yr(2025, false)), (cal::MIN_DAY, yr(-5_879_609, false)), (yr(5_879_609, true), cal::MAX_DAY)];
    if !ctx.thorough {
        wins[1] = (yr(1899, true), yr(1901, false));
        wins[2] = (yr(2019, true), yr(2025, false));
    } else {
        wins[0] = (yr(-12, true), yr(12, false));
        wins[1] = (yr(1890, true), yr(1910, false));
        wins[2] = (yr(2000, true), yr(2030, false));
        wins.push((yr(-405, true), yr(-395, false)));
    }
    for (k, (lo, hi)) in wins.iter().cloned().enumerate() {
        let n = (hi - lo + 1) as u64;
        rep.sweep(&format!("Date: all ordered pairs inside window {} ({} days)", k, n), n, "one index per b; a walks the whole window (n^2 pairs)", move |i, acc| {
            walk_dates(lo + i as i64, lo, hi, acc);
            if i % 1_013 == 0 {
                acc.sample(json!({"op": "months_since/years_since", "b": cal::ymd(lo + i as i64), "a_range": [cal::ymd(lo), cal::ymd(hi)]}));
            }
        });
    }
    let dwins = if ctx.thorough { vec![(yr(2018, true), yr(2025, false)), (yr(-5, true), yr(5, false)), (yr(1899, true), yr(1901, false))] } else { vec![(yr(2019, true) + 330, yr(2021, false) - 300), (yr(-1, true) + 300, yr(1, false) - 300)] };
    for (k, (lo, hi)) in dwins.iter().cloned().enumerate() {
        let n = (hi - lo + 1) as u64;
        rep.sweep(&format!("DateTime: all ordered pairs inside window {} ({} days) x 6x6 times of day", k, n), n * 6, "one index per (b, time of b)", move |i, acc| {
            walk_dts(lo + (i / 6) as i64, TODS[(i % 6) as usize], lo, hi, acc);
        });
    }
    // lattice beyond the windows
    let db = if ctx.thorough { ab::days_b() } else { ab::days_b_small() };
    let step = 4_099i64;
    let phase = (ctx.seed % step as u64) as i64;
    let nl = ((cal::MAX_DAY - cal::MIN_DAY - phase) / step) as u64;
    let ndb = db.len() as u64;
    rep.sweep("Date: day lattice (every 4099th day) x DAYS_B, both orders", nl * ndb, "pairs far outside the windows", move |i, acc| {
        let a = cal::MIN_DAY + phase + (i / ndb) as i64 * step;
        let b = db[(i % ndb) as usize];
        walk_dates(b, a, a, acc);
        walk_dates(a, b, b, acc);
    });
    rep.finish()
}

pub fn replay(_op: &str, case: &Value, acc: &mut Acc) -> bool {
    match case["kind"].as_str() {
        Some("date") => {
            let (a, b) = (case["a"].as_i64().unwrap(), case["b"].as_i64().unwrap());
            walk_dates(b, (a - 1).max(cal::MIN_DAY), a, acc);
        }
        Some("dt") => {
            let (a, b) = (case["a"].as_i64().unwrap(), case["b"].as_i64().unwrap());
            walk_dts(b, case["tb"].as_str().unwrap().parse().unwrap(), (a - 1).max(cal::MIN_DAY), a, acc);
        }
        _ => return false,
    }
    true
}
