//! C05 — month and year arithmetic keeps the day of month, clamped, across every year (E1).
use crate::alphabets as ab;
use crate::engine::{call, Acc, Ctx, Out, Report, PROFILE};
use crate::real::{date_day, dt_from_off, dt_instant, off_secs};
use crate::refmodel::calendar as cal;
use crate::refmodel::instant as ins;
use astrolabe::{Date, DateTime, DateUtilities, OffsetUtilities};
use serde_json::{json, Value};

const OPS: [&str; 4] = ["add_months", "sub_months", "add_years", "sub_years"];

fn months_of(op: usize, n: u32) -> i64 {
    match op {
        0 => n as i64,
        1 => -(n as i64),
        2 => n as i64 * 12,
        _ => -(n as i64) * 12,
    }
}

fn class_of(day: i64, exp: Option<i64>, n: u32) -> String {
    let (a, _, d) = cal::civil_from_days(day);
    let src = if a <= 0 { "from-bc" } else { "from-ad" };
    let dst = match exp {
        None => "out-of-range",
        Some(e) if (e < 0) != (day < 0) => "crossing-era",
        Some(_) => "same-era",
    };
    format!("{}-{}-{}{}", src, dst, if d >= 29 { "day>=29" } else { "day<29" }, if n >= 1 << 31 { "-n>=2^31" } else { "" })
}

fn apply_date(d: &Date, op: usize, n: u32) -> Date {
    match op {
        0 => d.add_months(n),
        1 => d.sub_months(n),
        2 => d.add_years(n),
        _ => d.sub_years(n),
    }
}

fn apply_dt(d: &DateTime, op: usize, n: u32) -> DateTime {
    match op {
        0 => d.add_months(n),
        1 => d.sub_months(n),
        2 => d.add_years(n),
        _ => d.sub_years(n),
    }
}

fn case_date(day: i64, op: usize, n: u32, acc: &mut Acc) {
    case_date_inner(day, op, n, acc);
    if crate::props::anchor::hash(&[day as u64, op as u64, n as u64]) % 8 == 0 {
        crate::props::anchor::values(acc, "month/year arithmetic (purity probe)", &|| json!({"kind": "date", "day": day, "op": op, "n": n}));
    }
}

fn case_date_inner(day: i64, op: usize, n: u32, acc: &mut Acc) {
    acc.transitions += 1;
    acc.states += 1;
    let exp = cal::day_add_months(day, months_of(op, n));
    let d = Date::from_timestamp((day - cal::DAYS_TO_1970) * 86_400);
    let got = call(|| date_day(&apply_date(&d, op, n)));
    let opn = format!("Date::{}", OPS[op]);
    let case = || json!({"kind": "date", "day": day, "op": op, "n": n});
    match (exp, &got) {
        (Some(e), Out::Val(g)) if *g == e => {
            let (_, _, d0) = cal::civil_from_days(day);
            let (_, _, d1) = cal::civil_from_days(e);
            if d1 != d0 {
                acc.branch("clamped-to-month-end");
                acc.nontrivial += 1;
            } else {
                acc.branch("day-kept");
            }
            if (e < 0) != (day < 0) {
                acc.branch("crossed-era");
            }
        }
        (None, Out::Panic(_)) => {
            acc.branch("expected-panic");
            acc.nontrivial += 1;
        }
        (Some(e), other) => acc.violation(&opn, &format!("wrong-date-{}", class_of(day, exp, n)), case(), format!("day {} = {:?}", e, cal::ymd(e)), match other {
            Out::Val(g) => format!("day {} = {:?}", g, cal::ymd(*g)),
            o => o.show(),
        }),
        (None, other) => acc.violation(&opn, &format!("no-panic-{}", class_of(day, exp, n)), case(), "panic (target outside the representable range)".into(), other.show()),
    }
}

fn case_dt(day: i64, nod: u64, off: i32, op: usize, n: u32, acc: &mut Acc) {
    case_dt_inner(day, nod, off, op, n, acc);
    if crate::props::anchor::hash(&[day as u64, nod, off as u64, op as u64, n as u64]) % 8 == 0 {
        crate::props::anchor::values(acc, "month/year arithmetic (purity probe)", &|| json!({"kind": "dt", "day": day, "nod": nod.to_string(), "off": off, "op": op, "n": n}));
    }
}

fn case_dt_inner(day: i64, nod: u64, off: i32, op: usize, n: u32, acc: &mut Acc) {
    // only where the local date equals the UTC date before and after (statement silent otherwise)
    let local = ins::join(day, nod) + off as i128 * ins::NS;
    if ins::split(local).0 != day {
        return;
    }
    let dt = match dt_from_off(day, nod, off) {
        Some(d) => d,
        None => return,
    };
    acc.transitions += 1;
    acc.states += 1;
    let exp = cal::day_add_months(day, months_of(op, n));
    let got = call(|| apply_dt(&dt, op, n));
    let opn = format!("DateTime::{}", OPS[op]);
    let case = || json!({"kind": "dt", "day": day, "nod": nod.to_string(), "off": off, "op": op, "n": n});
    match (exp, &got) {
        (Some(e), Out::Val(v)) => {
            let want = ins::join(e, nod);
            if dt_instant(v) != Some(want) || off_secs(v.get_offset()) != off {
                acc.violation(&opn, &format!("wrong-date-{}", class_of(day, exp, n)), case(), format!("instant {} ({:?} time kept) offset {}", want, cal::ymd(e), off), format!("{:?}", v));
            }
            acc.branch("datetime-moved");
        }
        (None, Out::Panic(_)) => acc.branch("expected-panic"),
        (Some(e), other) => acc.violation(&opn, &format!("wrong-date-{}", class_of(day, exp, n)), case(), format!("day {} = {:?}", e, cal::ymd(e)), other.show()),
        (None, other) => acc.violation(&opn, &format!("no-panic-{}", class_of(day, exp, n)), case(), "panic".into(), other.show()),
    }
}

fn n_menu() -> Vec<u32> {
    let mut v: Vec<u32> = (0..=49).collect();
    v.extend([99, 100, 119, 120, 121, 1199, 1200, 1201, 4799, 4800, 4801]);
    v.extend(ab::counts_b());
    v.sort();
    v.dedup();
    v
}

pub fn run(ctx: &Ctx) -> i32 {
    let mut rep = Report::new(ctx);
    rep.rule = "states = distinct (date, operation, N) tuples; transitions = real add_/sub_months/years calls compared with total-month arithmetic on astronomical years (end-of-month clamp, display-year mapping), time of day and offset unchanged, panic iff the target is outside the range; non-trivial = clamped results and expected panics".into();
    rep.assumptions = vec![
        "DateTime with a non-zero offset is judged only where the local date equals the UTC date (the statement does not say which day of month is kept otherwise)".into(),
        "the product day x N is covered as: every window day x N menu; every day of the range x N in {1, 12 months, 1, 4 years} (thorough); every N of the non-panicking region from three base dates (thorough)".into(),
    ];
    rep.require(&["clamped-to-month-end", "day-kept", "crossed-era", "expected-panic", "datetime-moved"]);
    let checked = PROFILE == "checked";
    let ns = n_menu();
    let nn = ns.len() as u64;
    let wd = ab::window_days();
    let nw = wd.len() as u64;
    rep.sweep("Date: every window day x N menu x 4 ops", nw * nn * 4, "7 multi-year windows incl. the era boundary and both range ends", |i, acc| {
        let op = (i % 4) as usize;
        let n = ns[(i / 4 % nn) as usize];
        let day = wd[(i / (4 * nn)) as usize];
        case_date(day, op, n, acc);
        if i % 3_000_017 == 0 {
            acc.sample(json!({"op": format!("Date::{}", OPS[op]), "date": cal::ymd(day), "n": n, "expect": cal::day_add_months(day, months_of(op, n)).map(cal::ymd)}));
        }
    });
    let db = ab::days_b();
    let tods = [0u64, 43_200_000_000_000, ab::DAY_NS - 1];
    let offs = [0i32, 3600, -3600];
    let ndb = db.len() as u64;
    rep.sweep("DateTime: DAYS_B x 3 times of day x 3 offsets x N menu x 4 ops", ndb * 9 * nn * 4, "offsets only where local date = UTC date", |i, acc| {
        let op = (i % 4) as usize;
        let n = ns[(i / 4 % nn) as usize];
        let r = i / (4 * nn);
        case_dt(db[(r / 9) as usize], tods[(r % 3) as usize], offs[(r / 3 % 3) as usize], op, n, acc);
    });
    if ctx.thorough && checked {
        let small = [(0usize, 1u32), (1, 1), (0, 12), (1, 12), (2, 1), (3, 1), (2, 4), (3, 4)];
        rep.sweep("Date: all 2^32 days x {1, 12 months, 1, 4 years} x add/sub", (1u64 << 32) * 8, "every representable day", move |i, acc| {
            let (op, n) = small[(i % 8) as usize];
            case_date(cal::MIN_DAY + (i / 8) as i64, op, n, acc);
        });
        let bases = [cal::days_from_civil(2024, 2, 29), cal::days_from_civil(-4, 1, 31), 0];
        let reach_m = 141_300_000u64;
        rep.sweep("Date: all N in 0..=141.3M months from 3 base dates x add/sub", reach_m * 6, "whole non-panicking region plus beyond", move |i, acc| {
            let k = i % 6;
            case_date(bases[(k / 2) as usize], (k % 2) as usize, (i / 6) as u32, acc);
        });
        let reach_y = 11_800_000u64;
        rep.sweep("Date: all N in 0..=11.8M years from 3 base dates x add/sub", reach_y * 6, "whole non-panicking region plus beyond", move |i, acc| {
            let k = i % 6;
            case_date(bases[(k / 2) as usize], 2 + (k % 2) as usize, (i / 6) as u32, acc);
        });
    } else {
        // lattices: every k-th day x small N; every k-th N from three bases
        let step: i64 = if ctx.thorough { 97 } else { 9_973 };
        let phase = (ctx.seed % step as u64) as i64;
        let nd = ((cal::MAX_DAY - cal::MIN_DAY - phase) / step) as u64;
        let small = [(0usize, 1u32), (1, 1), (0, 12), (1, 12), (2, 1), (3, 1), (2, 4), (3, 4), (0, 11), (1, 13)];
        rep.sweep("Date: day lattice x small N x add/sub", nd * 10, "every k-th day of the full range (phase from seed)", move |i, acc| {
            let (op, n) = small[(i % 10) as usize];
            case_date(cal::MIN_DAY + phase + (i / 10) as i64 * step, op, n, acc);
        });
        let bases = [cal::days_from_civil(2024, 2, 29), cal::days_from_civil(-4, 1, 31), 0];
        let nstep: u64 = if ctx.thorough { 13 } else { 1_009 };
        let cnt = 141_300_000u64 / nstep;
        rep.sweep("Date: N lattice from 3 base dates x 4 ops", cnt * 12, "every k-th N up to 141.3M", move |i, acc| {
            let k = i % 12;
            case_date(bases[(k / 4) as usize], (k % 4) as usize, ((i / 12) * nstep + ctx_seed_phase(nstep)) as u32, acc);
        });
    }
    // E2: sequences of month / year / day operations (state carried from one call into the next)
    crate::machine::run_datetime_machine(&mut rep, if ctx.thorough { 4 } else { 3 }, crate::machine::DtMenu::Calendar);
    crate::machine::run_datetime_paths(&mut rep, if ctx.thorough { 5 } else { 4 }, crate::machine::DtMenu::Calendar);
    rep.finish()
}

fn ctx_seed_phase(_step: u64) -> u64 {
    0
}

pub fn replay(_op: &str, case: &Value, acc: &mut Acc) -> bool {
    match case["kind"].as_str() {
        Some("date") => case_date(case["day"].as_i64().unwrap(), case["op"].as_u64().unwrap() as usize, case["n"].as_u64().unwrap() as u32, acc),
        Some("machine") => crate::machine::replay_datetime(case, acc),
        Some("dt") => case_dt(case["day"].as_i64().unwrap(), case["nod"].as_str().unwrap().parse().unwrap(), case["off"].as_i64().unwrap() as i32, case["op"].as_u64().unwrap() as usize, case["n"].as_u64().unwrap() as u32, acc),
        _ => return false,
    }
    true
}
