//! C04 — adding or subtracting an amount of time moves the instant by exactly that amount
//! (E1 sweeps + E2 stateright value machine).
use crate::alphabets as ab;
use crate::engine::{call, Acc, Ctx, Out, Report, PROFILE};
use crate::machine;
use crate::real::{date_day, dt_from_off, dt_instant, off_secs};
use crate::refmodel::calendar as cal;
use crate::refmodel::instant as ins;
use astrolabe::{Date, DateTime, DateUtilities, OffsetUtilities, Time, TimeUtilities};
use serde_json::{json, Value};
use std::time::Duration;

pub const UNITS: [(&str, i128); 7] = [
    ("days", 86_400_000_000_000),
    ("hours", 3_600_000_000_000),
    ("minutes", 60_000_000_000),
    ("seconds", 1_000_000_000),
    ("millis", 1_000_000),
    ("micros", 1_000),
    ("nanos", 1),
];

/// op index: unit*2 + (0 add | 1 sub)
pub fn apply_unit(dt: &DateTime, op: usize, n: u32) -> DateTime {
    match op {
        0 => dt.add_days(n),
        1 => dt.sub_days(n),
        2 => dt.add_hours(n),
        3 => dt.sub_hours(n),
        4 => dt.add_minutes(n),
        5 => dt.sub_minutes(n),
        6 => dt.add_seconds(n),
        7 => dt.sub_seconds(n),
        8 => dt.add_millis(n),
        9 => dt.sub_millis(n),
        10 => dt.add_micros(n),
        11 => dt.sub_micros(n),
        12 => dt.add_nanos(n),
        _ => dt.sub_nanos(n),
    }
}

pub fn op_name(op: usize) -> String {
    format!("DateTime::{}_{}", if op % 2 == 0 { "add" } else { "sub" }, UNITS[op / 2].0)
}

pub fn expected_unit(instant: i128, op: usize, n: u32) -> Option<i128> {
    let delta = n as i128 * UNITS[op / 2].1;
    let r = if op % 2 == 0 { instant + delta } else { instant - delta };
    ins::representable(r).then_some(r)
}

fn class_of(instant: i128, exp: Option<i128>, n: u32, op: usize) -> String {
    let unit = UNITS[op / 2].1;
    let big = (n as u128) * (unit as u128) >= (1u128 << 63);
    let era = match exp {
        None => "out-of-range",
        Some(e) if (e < 0) != (instant < 0) => "crosses-0001-01-01",
        Some(e) if e < 0 => "before-0001-01-01",
        _ => "ad",
    };
    format!("{}-{}", if big { "amount>=2^63ns" } else if n >= (1 << 31) { "count>=2^31" } else { "small-amount" }, era)
}

/// compare a real result with the expected instant/offset (None = must panic)
pub fn judge(op: &str, class: &str, case: Value, got: &Out<DateTime>, exp: Option<i128>, off: i32, acc: &mut Acc) {
    judge_lazy(|| op.to_string(), || class.to_string(), || case.clone(), got, exp, off, acc)
}

/// like `judge`, but the operation name, class id and case description are only built on a violation
/// (the complete count-axis sweeps execute 1.5e11 cases)
pub fn judge_lazy(op: impl FnOnce() -> String, class: impl FnOnce() -> String, case: impl FnOnce() -> Value, got: &Out<DateTime>, exp: Option<i128>, off: i32, acc: &mut Acc) {
    match (exp, got) {
        (Some(e), Out::Val(v)) => {
            let gi = dt_instant(v);
            let go = off_secs(v.get_offset());
            if gi != Some(e) || go != off {
                acc.violation(&op(), &format!("wrong-instant-{}", class()), case(), format!("instant {} offset {}", e, off), format!("instant {:?} offset {} ({:?})", gi, go, v));
            }
            acc.branch("moved");
        }
        (Some(e), other) => acc.violation(&op(), &format!("panic-in-range-{}", class()), case(), format!("instant {}", e), other.show()),
        (None, Out::Panic(_)) => acc.branch("expected-panic"),
        (None, other) => acc.violation(&op(), &format!("no-panic-out-of-range-{}", class()), case(), "panic (result not representable)".into(), other.show()),
    }
}

fn case_unit(day: i64, nod: u64, off: i32, op: usize, n: u32, acc: &mut Acc) {
    case_unit_inner(day, nod, off, op, n, acc);
    if crate::props::anchor::hash(&[day as u64, nod, off as u64, op as u64, n as u64]) % 16 == 0 {
        crate::props::anchor::values(acc, "add/sub (purity probe)", &|| json!({"kind": "unit", "day": day, "nod": nod.to_string(), "off": off, "op": op, "n": n}));
    }
}

fn case_unit_inner(day: i64, nod: u64, off: i32, op: usize, n: u32, acc: &mut Acc) {
    let dt = match dt_from_off(day, nod, off) {
        Some(d) => d,
        None => {
            acc.branch("construct-skipped");
            return;
        }
    };
    case_unit_on(&dt, day, nod, off, op, n, acc)
}

/// the same on an already constructed receiver (count-axis sweeps build it once per chunk)
fn case_unit_on(dt: &DateTime, day: i64, nod: u64, off: i32, op: usize, n: u32, acc: &mut Acc) {
    acc.transitions += 1;
    acc.states += 1;
    let instant = ins::join(day, nod);
    let exp = expected_unit(instant, op, n);
    if n != 0 {
        acc.nontrivial += 1;
    }
    let got = call(|| apply_unit(dt, op, n));
    judge_lazy(|| op_name(op), || class_of(instant, exp, n, op), || json!({"kind": "unit", "day": day, "nod": nod.to_string(), "off": off, "op": op, "n": n}), &got, exp, off, acc);
    if let Some(e) = exp {
        if (e < 0) != (instant < 0) {
            acc.branch("crosses-era");
        }
    }
}

/// Date::add_days / sub_days
fn case_date_days(day: i64, sub: bool, n: u32, acc: &mut Acc) {
    acc.transitions += 1;
    acc.states += 1;
    let exp = if sub { day - n as i64 } else { day + n as i64 };
    let exp = (cal::MIN_DAY..=cal::MAX_DAY).contains(&exp).then_some(exp);
    let d = Date::from_timestamp((day - cal::DAYS_TO_1970) * 86_400);
    let got = call(|| date_day(&if sub { d.sub_days(n) } else { d.add_days(n) }));
    let op = if sub { "Date::sub_days" } else { "Date::add_days" };
    let case = || json!({"kind": "date_days", "day": day, "sub": sub, "n": n});
    let cls = if n >= 1 << 31 { "count>=2^31" } else { "count<2^31" };
    match (exp, &got) {
        (Some(e), Out::Val(g)) if *g == e => acc.branch("moved"),
        (None, Out::Panic(_)) => acc.branch("expected-panic"),
        (Some(e), other) => acc.violation(op, &format!("wrong-day-{}", cls), case(), format!("day {}", e), other.show()),
        (None, other) => acc.violation(op, &format!("no-panic-out-of-range-{}", cls), case(), "panic".into(), other.show()),
    }
}

/// operators: 0 DateTime+Duration 1 DateTime-Duration 2 DateTime+Time 3 DateTime-Time 4 Date+Duration 5 Date-Duration
/// the compound-assignment form of an operator must do exactly what the operator does
fn same_as_assign<T: std::fmt::Debug>(op: &str, case: &Value, plain: &Out<T>, assigned: &Out<T>, acc: &mut Acc) {
    acc.transitions += 1;
    let same = match (plain, assigned) {
        (Out::Val(a), Out::Val(b)) => format!("{:?}", a) == format!("{:?}", b),
        (Out::Panic(_), Out::Panic(_)) => true,
        _ => false,
    };
    if same {
        acc.branch("assign-form-agrees");
    } else {
        acc.violation(op, "assign-form-differs-from-operator", case.clone(), plain.show(), assigned.show());
    }
}

fn case_operator(day: i64, nod: u64, off: i32, which: u8, secs: u64, sub_ns: u32, acc: &mut Acc) {
    let instant = ins::join(day, nod);
    let case = json!({"kind": "operator", "day": day, "nod": nod.to_string(), "off": off, "which": which, "secs": secs.to_string(), "sub_ns": sub_ns});
    let dur = Duration::new(secs, sub_ns);
    let dur_ns = secs as i128 * ins::NS + sub_ns as i128;
    match which {
        0 | 1 => {
            let dt = match dt_from_off(day, nod, off) {
                Some(d) => d,
                None => return,
            };
            acc.transitions += 1;
            acc.states += 1;
            let r = if which == 0 { instant + dur_ns } else { instant - dur_ns };
            let exp = ins::representable(r).then_some(r);
            let got = call(|| if which == 0 { dt + dur } else { dt - dur });
            let assigned = call(|| {
                let mut x = dt;
                if which == 0 {
                    x += dur;
                } else {
                    x -= dur;
                }
                x
            });
            same_as_assign(if which == 0 { "DateTime += Duration" } else { "DateTime -= Duration" }, &case, &got, &assigned, acc);
            let cls = match exp {
                None => "out-of-range",
                Some(e) if e < 0 => "result-before-0001-01-01",
                _ => "result-ad",
            };
            judge(if which == 0 { "DateTime + Duration" } else { "DateTime - Duration" }, cls, case, &got, exp, off, acc);
        }
        2 | 3 => {
            if secs >= 86_400 {
                return;
            }
            let dt = match dt_from_off(day, nod, off) {
                Some(d) => d,
                None => return,
            };
            let t = Time::from_nanos(secs * 1_000_000_000 + sub_ns as u64).unwrap();
            acc.transitions += 1;
            acc.states += 1;
            let r = if which == 2 { instant + dur_ns } else { instant - dur_ns };
            let exp = ins::representable(r).then_some(r);
            let got = call(|| if which == 2 { dt + t } else { dt - t });
            let assigned = call(|| {
                let mut x = dt;
                if which == 2 {
                    x += t;
                } else {
                    x -= t;
                }
                x
            });
            same_as_assign(if which == 2 { "DateTime += Time" } else { "DateTime -= Time" }, &case, &got, &assigned, acc);
            let cls = match exp {
                None => "out-of-range",
                Some(e) if e < 0 => "result-before-0001-01-01",
                _ => "result-ad",
            };
            judge(if which == 2 { "DateTime + Time" } else { "DateTime - Time" }, cls, case, &got, exp, off, acc);
        }
        _ => {
            if nod != 0 || off != 0 {
                return;
            }
            acc.transitions += 1;
            acc.states += 1;
            let whole = (secs / 86_400) as i128;
            let r = if which == 4 { day as i128 + whole } else { day as i128 - whole };
            let exp = (cal::MIN_DAY as i128..=cal::MAX_DAY as i128).contains(&r).then_some(r as i64);
            let d = Date::from_timestamp((day - cal::DAYS_TO_1970) * 86_400);
            let got = call(|| date_day(&if which == 4 { d + dur } else { d - dur }));
            let assigned = call(|| {
                let mut x = d;
                if which == 4 {
                    x += dur;
                } else {
                    x -= dur;
                }
                date_day(&x)
            });
            same_as_assign(if which == 4 { "Date += Duration" } else { "Date -= Duration" }, &case, &got, &assigned, acc);
            let op = if which == 4 { "Date + Duration" } else { "Date - Duration" };
            match (exp, &got) {
                (Some(e), Out::Val(g)) if *g == e => acc.branch("moved"),
                (None, Out::Panic(_)) => acc.branch("expected-panic"),
                (Some(e), other) => acc.violation(op, if whole >= 1 << 31 { "wrong-day-days>=2^31" } else { "wrong-day" }, case, format!("day {}", e), other.show()),
                (None, other) => acc.violation(op, if whole >= 1 << 31 { "no-panic-out-of-range-days>=2^31" } else { "no-panic-out-of-range" }, case, "panic".into(), other.show()),
            }
        }
    }
}

fn duration_menu() -> Vec<(u64, u32)> {
    let span = (cal::MAX_DAY - cal::MIN_DAY + 1) as u64 * 86_400;
    let mut v = vec![];
    for s in [0u64, 1, 59, 86_399, 86_400, 86_401, 2 * 86_400, 719_162 * 86_400, span - 86_401, span - 86_400, span - 1, span, span + 1, (1u64 << 31) * 86_400 - 1, (1u64 << 31) * 86_400, (1u64 << 32) * 86_400, (1u64 << 32) * 86_400 + 86_400, u64::MAX / 1_000_000_000, u64::MAX / 2, u64::MAX - 1, u64::MAX, 9_223_372_036, 9_223_372_037, 18_446_744_073, 18_446_744_074] {
        for n in [0u32, 1, 999_999_999] {
            v.push((s, n));
        }
    }
    v
}

pub fn run(ctx: &Ctx) -> i32 {
    let mut rep = Report::new(ctx);
    rep.rule = "states = distinct (instant, offset, operation, amount) tuples and E2 machine states; transitions = real add_/sub_/operator calls compared with i128 instant arithmetic (offset unchanged, panic iff the exact result is not representable); non-trivial = non-zero amounts".into();
    rep.assumptions = vec![
        "the product instant x count is covered as complete sweeps of the count axis from three base instants (thorough), a 1/65537 lattice of counts (quick), and the full cross product of the boundary alphabets".into(),
        "values are built through from_timestamp + set_nano + set_offset and read through set_offset(0), timestamp(), nano() (C03, C10)".into(),
    ];
    rep.require(&["moved", "expected-panic", "crosses-era"]);
    let checked = PROFILE == "checked";
    let days = if ctx.thorough { ab::days_b() } else { ab::days_b_small() };
    let nanos = ab::nanos_b();
    let offs = [0i32, 3600, -86_399];
    let counts = ab::counts_b();
    let (nd, nn, no, nc) = (days.len() as u64, nanos.len() as u64, offs.len() as u64, counts.len() as u64);
    rep.sweep("unit-ops:DAYS x NANOS_B x offsets x COUNTS_B x 14 ops", nd * nn * no * nc * 14, "full cross product of the boundary alphabets", |i, acc| {
        let op = (i % 14) as usize;
        let mut r = i / 14;
        let c = counts[(r % nc) as usize];
        r /= nc;
        let o = offs[(r % no) as usize];
        r /= no;
        let n = nanos[(r % nn) as usize];
        r /= nn;
        case_unit(days[r as usize], n, o, op, c, acc);
        if i % 20_000_003 == 0 {
            acc.sample(json!({"op": op_name(op), "day": days[r as usize], "nod": n, "off": o, "count": c}));
        }
    });
    // count axis from base instants
    let bases: [(i64, u64); 3] = [(0, 0), (cal::days_from_civil(2024, 2, 29), 43_200_000_000_001), (-366, 86_399_999_999_999)];
    if ctx.thorough && checked {
        rep.sweep_chunked("unit-ops:all-2^32-counts x 12 sub-day ops x 3 bases", (1u64 << 32) * 36, "complete count axis for every sub-day unit", |lo, hi, acc| {
            let recv: Vec<DateTime> = bases.iter().map(|b| dt_from_off(b.0, b.1, 0).expect("base instant")).collect();
            for i in lo..hi {
                let n = (i / 36) as u32;
                let k = i % 36;
                let (bi, op) = ((k / 12) as usize, 2 + (k % 12) as usize);
                case_unit_on(&recv[bi], bases[bi].0, bases[bi].1, 0, op, n, acc);
            }
        });
        rep.sweep("unit-ops:all-2^32-counts add_days from MIN / sub_days from MAX", (1u64 << 32) * 2, "every count is in range there", |i, acc| {
            let n = (i / 2) as u32;
            if i % 2 == 0 {
                case_unit(cal::MIN_DAY, 0, 0, 0, n, acc);
                case_date_days(cal::MIN_DAY, false, n, acc);
            } else {
                case_unit(cal::MAX_DAY, ab::DAY_NS - 1, 0, 1, n, acc);
                case_date_days(cal::MAX_DAY, true, n, acc);
            }
        });
    } else {
        let step: u64 = if ctx.thorough { 257 } else { 65_537 };
        let phase = ctx.seed % step;
        let n_counts = ((1u64 << 32) - phase + step - 1) / step;
        rep.sweep("unit-ops:count-lattice x 14 ops x 3 bases (+MIN/MAX for days)", n_counts * 14 * 3, "every k-th u32 count (phase from seed)", move |i, acc| {
            let n = (phase + (i / 42) * step) as u32;
            let k = i % 42;
            let (b, op) = (bases[(k / 14) as usize], (k % 14) as usize);
            case_unit(b.0, b.1, 0, op, n, acc);
            if k == 0 {
                case_unit(cal::MIN_DAY, 0, 0, 0, n, acc);
                case_unit(cal::MAX_DAY, ab::DAY_NS - 1, 0, 1, n, acc);
                case_date_days(cal::MIN_DAY, false, n, acc);
                case_date_days(cal::MAX_DAY, true, n, acc);
            }
        });
    }
    // Date add/sub days on the alphabets
    let db = ab::days_b();
    let ndb = db.len() as u64;
    rep.sweep("Date::add_days/sub_days:DAYS_B x COUNTS_B", ndb * nc * 2, "cross product", |i, acc| {
        case_date_days(db[(i / (nc * 2)) as usize], i % 2 == 1, counts[(i / 2 % nc) as usize], acc);
    });
    // operators
    let durs = duration_menu();
    let tmenu: Vec<(u64, u32)> = vec![(0, 0), (0, 1), (1, 0), (43_200, 0), (86_399, 0), (86_399, 999_999_999)];
    let qdays = ab::days_b_small();
    let mut ops: Vec<(i64, u64, i32, u8, u64, u32)> = vec![];
    for &d in &qdays {
        for &n in &[0u64, 1, 43_200_000_000_000, ab::DAY_NS - 1] {
            for &o in &offs {
                for w in 0..6u8 {
                    let menu = if w == 2 || w == 3 { &tmenu } else { &durs };
                    for &(s, ns) in menu {
                        ops.push((d, n, o, w, s, ns));
                    }
                }
            }
        }
    }
    rep.sweep("operators:DAYS_B' x 4 nanos x offsets x {Duration, Time} menus", ops.len() as u64, "DateTime +/- Duration, DateTime +/- Time, Date +/- Duration", |i, acc| {
        let (d, n, o, w, s, ns) = ops[i as usize];
        case_operator(d, n, o, w, s, ns, acc);
        if i % 100_003 == 0 {
            acc.sample(json!({"op": "operator", "which": w, "day": d, "nod": n, "off": o, "secs": s.to_string(), "ns": ns}));
        }
    });
    // E2: value machine
    machine::run_datetime_machine(&mut rep, if ctx.thorough { 3 } else { 2 }, machine::DtMenu::Arithmetic);
    machine::run_datetime_paths(&mut rep, if ctx.thorough { 4 } else { 3 }, machine::DtMenu::Arithmetic);
    rep.finish()
}

pub fn replay(_op: &str, case: &Value, acc: &mut Acc) -> bool {
    let nod = || case["nod"].as_str().unwrap().parse::<u64>().unwrap();
    match case["kind"].as_str() {
        Some("unit") => case_unit(case["day"].as_i64().unwrap(), nod(), case["off"].as_i64().unwrap() as i32, case["op"].as_u64().unwrap() as usize, case["n"].as_u64().unwrap() as u32, acc),
        Some("date_days") => case_date_days(case["day"].as_i64().unwrap(), case["sub"].as_bool().unwrap(), case["n"].as_u64().unwrap() as u32, acc),
        Some("operator") => case_operator(case["day"].as_i64().unwrap(), nod(), case["off"].as_i64().unwrap() as i32, case["which"].as_u64().unwrap() as u8, case["secs"].as_str().unwrap().parse().unwrap(), case["sub_ns"].as_u64().unwrap() as u32, acc),
        Some("machine") => machine::replay_datetime(case, acc),
        _ => return false,
    }
    true
}
