//! C14 — text-consuming APIs return a Result for every input and never panic
//! (E3: exhaustive bounded string families, supervised child process).
use crate::engine::{call, Acc, Ctx, Out, Report};
use crate::props::c11::{piece_alphabet, real_format};
use crate::refmodel::calendar as cal;
use astrolabe::{CronSchedule, Date, DateTime, DateUtilities, Offset, OffsetUtilities, Time};
use serde_json::{json, Value};
use std::str::FromStr;

pub const TEXT_SIGMA: [&str; 16] = ["0", "1", "9", "-", "+", ":", ".", " ", "a", "P", "Z", "T", "'", "é", "€", "\0"];
const PATTERN_SIGMA: [&str; 24] = ["G", "y", "q", "M", "w", "d", "D", "e", "a", "b", "h", "H", "K", "k", "m", "s", "n", "X", "x", "'", "-", "T", "é", "\0"];
const CRON_SIGMA: [&str; 11] = ["*", "/", "-", ",", "0", "1", "7", "9", "a", "é", " "];

/// number of strings of length <= max_len over an alphabet of size k
pub fn count_strings(k: u64, max_len: u32) -> u64 {
    (0..=max_len).map(|l| k.pow(l)).sum()
}

/// idx-th string (shortest first) of length <= max_len over `alphabet`
pub fn nth_string(alphabet: &[&str], max_len: u32, mut idx: u64) -> String {
    let k = alphabet.len() as u64;
    let mut len = 0;
    while len <= max_len && idx >= k.pow(len) {
        idx -= k.pow(len);
        len += 1;
    }
    let mut s = String::new();
    for _ in 0..len {
        s.push_str(alphabet[(idx % k) as usize]);
        idx /= k;
    }
    s
}

fn offset_ok(o: Offset) -> bool {
    matches!(o, Offset::Fixed(s) if s > -86_400 && s < 86_400)
}

/// kind 0 Date::parse, 1 Time::parse, 2 DateTime::parse
fn case_parse(kind: u8, input: &str, pattern: &str, acc: &mut Acc) {
    case_parse_inner(kind, input, pattern, acc);
    let h = crate::props::anchor::hash(&[kind as u64, crate::props::anchor::hash_str(input), crate::props::anchor::hash_str(pattern)]);
    if h % 8 == 0 {
        crate::props::anchor::parse_light(kind, acc, "parse (purity probe)", &|| json!({"kind": "parse", "ty": kind, "input": input, "pattern": pattern}));
    }
}

thread_local! {
    /// family (k): the parse executed just before on this thread (recorded in a violation so that the replay repeats the history)
    static PRED_PARSE: std::cell::RefCell<Option<(String, String)>> = std::cell::RefCell::new(None);
}

fn case_parse_inner(kind: u8, input: &str, pattern: &str, acc: &mut Acc) {
    acc.transitions += 1;
    acc.states += 1;
    let name = ["Date::parse", "Time::parse", "DateTime::parse"][kind as usize];
    let pred = PRED_PARSE.with(|p| p.borrow().clone());
    let case = || json!({"kind": "parse", "ty": kind, "input": input, "pattern": pattern, "pred": pred.as_ref().map(|(i, p)| json!({"input": i, "pattern": p}))});
    // outcome: Ok(valid?) / Err / Panic
    let got: Out<Result<Result<(), String>, ()>> = call(|| match kind {
        0 => Date::parse(input, pattern).map(|d| {
            let (y, m, dd) = d.as_ymd();
            if cal::valid_day(y as i64, m, dd).is_some() { Ok(()) } else { Err(format!("{:?}", d)) }
        }).map_err(|_| ()),
        1 => Time::parse(input, pattern).map(|t| if t.as_nanos() < 86_400_000_000_000 && offset_ok(t.get_offset()) { Ok(()) } else { Err(format!("{:?}", t)) }).map_err(|_| ()),
        _ => DateTime::parse(input, pattern).map(|x| {
            let (y, m, d, h, mi, s) = x.as_ymdhms();
            let _ = x.timestamp();
            if cal::valid_day(y as i64, m, d).is_some() && h < 24 && mi < 60 && s < 60 && offset_ok(x.get_offset()) { Ok(()) } else { Err(format!("{:?}", x)) }
        }).map_err(|_| ()),
    });
    match &got {
        Out::Val(Ok(Ok(()))) => acc.branch("parse-ok"),
        Out::Val(Err(())) => {
            acc.branch("parse-err");
            acc.nontrivial += 1;
        }
        Out::Val(Ok(Err(v))) => acc.violation(name, "ok-but-invalid-value", case(), "a valid in-range value".into(), v.clone()),
        other => acc.violation(name, &format!("panic-{}", panic_class(&other.show())), case(), "Ok or Err".into(), other.show()),
    }
}

fn panic_class(msg: &str) -> &'static str {
    if msg.contains("char boundary") {
        "char-boundary"
    } else if msg.contains("overflow") {
        "arithmetic-overflow"
    } else if msg.contains("unwrap") {
        "unwrap"
    } else if msg.contains("out of range") || msg.contains("out of bounds") || msg.contains("is out of") {
        "slice-range"
    } else {
        "other"
    }
}

fn case_format(kind: u8, day: i64, nod: u64, off: i32, pattern: &str, acc: &mut Acc) {
    case_format_inner(kind, day, nod, off, pattern, acc);
    let h = crate::props::anchor::hash(&[kind as u64, day as u64, nod, crate::props::anchor::hash_str(pattern)]);
    if h % 8 == 0 {
        crate::props::anchor::format_light(kind, acc, "format (purity probe)", &|| json!({"kind": "format", "ty": kind, "day": day, "nod": nod.to_string(), "off": off, "pattern": pattern}));
    }
}

fn case_format_inner(kind: u8, day: i64, nod: u64, off: i32, pattern: &str, acc: &mut Acc) {
    let got = match real_format(kind, day, nod, off, pattern) {
        Some(g) => g,
        None => return,
    };
    acc.transitions += 1;
    acc.states += 1;
    match &got {
        Out::Val(_) => acc.branch("format-string"),
        other => acc.violation(["Date::format", "Time::format", "DateTime::format"][kind as usize], &format!("panic-{}", panic_class(&other.show())), json!({"kind": "format", "ty": kind, "day": day, "nod": nod.to_string(), "off": off, "pattern": pattern}), "a String".into(), other.show()),
    }
}

/// which: 0 parse_rfc3339, 1 DateTime::from_str, 2 Date::from_str, 3 Time::from_str
fn case_fixed(which: u8, input: &str, acc: &mut Acc) {
    case_fixed_inner(which, input, acc);
    let h = crate::props::anchor::hash(&[which as u64, crate::props::anchor::hash_str(input)]);
    if h % 8 == 0 {
        crate::props::anchor::text(acc, "fixed-format readers (purity probe)", &|| json!({"kind": "fixed", "which": which, "input": input}));
    }
}

fn case_fixed_inner(which: u8, input: &str, acc: &mut Acc) {
    acc.transitions += 1;
    acc.states += 1;
    let name = ["DateTime::parse_rfc3339", "DateTime::from_str", "Date::from_str", "Time::from_str"][which as usize];
    let got: Out<Option<bool>> = call(|| match which {
        0 => DateTime::parse_rfc3339(input).ok().map(|x| {
            let (y, m, d, h, mi, s) = x.as_ymdhms();
            cal::valid_day(y as i64, m, d).is_some() && h < 24 && mi < 60 && s < 60 && offset_ok(x.get_offset())
        }),
        1 => DateTime::from_str(input).ok().map(|x| {
            let (y, m, d, _, _, _) = x.as_ymdhms();
            cal::valid_day(y as i64, m, d).is_some()
        }),
        2 => Date::from_str(input).ok().map(|x| {
            let (y, m, d) = x.as_ymd();
            cal::valid_day(y as i64, m, d).is_some()
        }),
        _ => Time::from_str(input).ok().map(|x| x.as_nanos() < 86_400_000_000_000),
    });
    match &got {
        Out::Val(Some(true)) => acc.branch("parse-ok"),
        Out::Val(None) => {
            acc.branch("parse-err");
            acc.nontrivial += 1;
        }
        Out::Val(Some(false)) => acc.violation(name, "ok-but-invalid-value", json!({"kind": "fixed", "which": which, "input": input}), "valid value".into(), "invalid".into()),
        other => acc.violation(name, &format!("panic-{}", panic_class(&other.show())), json!({"kind": "fixed", "which": which, "input": input}), "Ok or Err".into(), other.show()),
    }
}

fn case_cron(expr: &str, acc: &mut Acc) {
    case_cron_inner(expr, acc);
    crate::props::anchor::cron(acc, "CronSchedule (purity probe)", &|| json!({"kind": "cron", "expr": expr}));
    astrolabe::verif_hooks::set_now(None);
}

fn case_cron_inner(expr: &str, acc: &mut Acc) {
    acc.transitions += 2;
    acc.states += 1;
    let got = call(|| (CronSchedule::parse(expr).is_ok(), CronSchedule::from_str(expr).is_ok()));
    match &got {
        Out::Val((a, b)) if a == b => acc.branch(if *a { "cron-ok" } else { "cron-err" }),
        other => acc.violation("CronSchedule::parse", &format!("panic-{}", panic_class(&other.show())), json!({"kind": "cron", "expr": expr}), "Ok or Err (same for from_str)".into(), other.show()),
    }
}

fn values() -> Vec<(i64, u64, i32)> {
    let d = |y: i64, m: u32, dd: u32| cal::valid_day(y, m, dd).unwrap();
    vec![
        (d(2022, 5, 2), 55_820_123_456_789, 0),
        (d(2024, 2, 29), 0, 19_800),
        (d(-5, 12, 31), 43_200_000_000_000, -28_378),
        (d(12_345, 10, 10), 86_399_999_999_999, 86_399),
        (cal::MAX_DAY, 86_399_999_999_999, 0),
        (cal::MIN_DAY, 0, 0),
        (cal::MAX_DAY - 1, 3_600_000_000_000, -86_399),
        (cal::MIN_DAY + 1, 82_800_000_000_000, 86_399),
    ]
}

/// All spaces of this check as (name, size, note, body). The body maps an index to one case; the
/// same table serves the sweep, the supervisor's trace mode and indexed replays.
fn spaces(thorough: bool) -> Vec<(String, u64, String, Box<dyn Fn(u64, &mut Acc) + Sync>)> {
    let mut v: Vec<(String, u64, String, Box<dyn Fn(u64, &mut Acc) + Sync>)> = vec![];
    // (a) single-token patterns x every short string
    let max_len = if thorough { 5 } else { 4 };
    let ns = count_strings(16, max_len);
    let syms: Vec<char> = "GyqMwdDeabhHKkmsnXx".chars().collect();
    v.push((format!("(a) 19 symbols x widths 1..=6 x every string of length <= {} over TEXT_SIGMA x 3 parse functions", max_len), 19 * 6 * ns * 3, "".into(), Box::new(move |i, acc| {
        let kind = (i % 3) as u8;
        let s = nth_string(&TEXT_SIGMA, max_len, i / 3 % ns);
        let r = i / (3 * ns);
        let pat = syms[(r / 6) as usize].to_string().repeat((r % 6) as usize + 1);
        case_parse(kind, &s, &pat, acc);
    })));
    // (b) every short pattern string
    let np = count_strings(24, 4);
    let inputs = ["", "1", "2022", "é", "2022-05-02T15:30:20Z"];
    v.push(("(b) every pattern of length <= 4 over PATTERN_SIGMA x 5 inputs x 3 parse functions".into(), np * 15, "".into(), Box::new(move |i, acc| {
        let pat = nth_string(&PATTERN_SIGMA, 4, i / 15);
        case_parse((i % 3) as u8, inputs[(i / 3 % 5) as usize], &pat, acc);
    })));
    let vals = values();
    let nv = vals.len() as u64;
    let vals2 = vals.clone();
    v.push(("(b) every pattern of length <= 4 over PATTERN_SIGMA x 8 values x 3 format functions".into(), np * nv * 3, "values include both ends of the range with offsets".into(), Box::new(move |i, acc| {
        let pat = nth_string(&PATTERN_SIGMA, 4, i / (3 * nv));
        let (d, n, o) = vals2[(i / 3 % nv) as usize];
        case_format((i % 3) as u8, d, n, o, &pat, acc);
    })));
    // (c) two-piece composite patterns x short strings, truncations and substitutions of the formatted text
    for kind in 0..3u8 {
        let pieces = piece_alphabet(kind);
        let np2 = (pieces.len() * pieces.len()) as u64;
        let nshort = count_strings(16, 3);
        let pieces_a = pieces.clone();
        v.push((format!("(c) {}: every 2-piece pattern x every string of length <= 3", ["Date", "Time", "DateTime"][kind as usize]), np2 * nshort, "".into(), Box::new(move |i, acc| {
            let k = i / nshort;
            let pat = format!("{}{}", pieces_a[(k % pieces_a.len() as u64) as usize], pieces_a[(k / pieces_a.len() as u64) as usize]);
            case_parse(kind, &nth_string(&TEXT_SIGMA, 3, i % nshort), &pat, acc);
        })));
        let pieces_b = pieces.clone();
        let vals3 = vals.clone();
        v.push((format!("(c) {}: every 2-piece pattern x 8 values: the formatted text, every truncation, every single substitution", ["Date", "Time", "DateTime"][kind as usize]), np2 * nv, "each index expands to (1 + len + len x 16) inputs".into(), Box::new(move |i, acc| {
            let k = i / nv;
            let pat = format!("{}{}", pieces_b[(k % pieces_b.len() as u64) as usize], pieces_b[(k / pieces_b.len() as u64) as usize]);
            let (d, n, o) = vals3[(i % nv) as usize];
            let text = match real_format(kind, d, n, o, &pat) {
                Some(Out::Val(t)) => t,
                _ => return,
            };
            case_parse(kind, &text, &pat, acc);
            let chars: Vec<char> = text.chars().collect();
            for cut in 0..chars.len() {
                case_parse(kind, &chars[..cut].iter().collect::<String>(), &pat, acc);
                for sub in TEXT_SIGMA {
                    let mut t: String = chars[..cut].iter().collect();
                    t.push_str(sub);
                    t.extend(chars[cut + 1..].iter());
                    case_parse(kind, &t, &pat, acc);
                }
            }
        })));
    }
    // (d) fixed-format readers
    let templates = ["2022-05-02T15:30:20Z", "2022-05-02T15:30:20+05:30", "2022-05-02T15:30:20.123456789-07:52", "2022-05-02", "15:30:20"];
    for (ti, t) in templates.iter().enumerate() {
        let chars: Vec<char> = t.chars().collect();
        let n = chars.len() as u64;
        let readers: Vec<u8> = if ti < 3 { vec![0, 1] } else if ti == 3 { vec![2, 0] } else { vec![3, 0] };
        let chars_a = chars.clone();
        let readers_a = readers.clone();
        v.push((format!("(d) template {:?}: every truncation, every single and every double substitution", t), (n + 1) + n * 16 + n * n * 256, "".into(), Box::new(move |i, acc| {
            let s: String = if i <= n {
                chars_a[..i as usize].iter().collect()
            } else if i < n + 1 + n * 16 {
                let j = i - n - 1;
                let mut c: Vec<String> = chars_a.iter().map(|c| c.to_string()).collect();
                c[(j / 16) as usize] = TEXT_SIGMA[(j % 16) as usize].to_string();
                c.concat()
            } else {
                let j = i - n - 1 - n * 16;
                let (p, q) = ((j / 256 / n) as usize, (j / 256 % n) as usize);
                let mut c: Vec<String> = chars_a.iter().map(|c| c.to_string()).collect();
                c[p] = TEXT_SIGMA[(j % 16) as usize].to_string();
                c[q] = TEXT_SIGMA[(j / 16 % 16) as usize].to_string();
                c.concat()
            };
            for r in &readers_a {
                case_fixed(*r, &s, acc);
            }
        })));
    }
    // (d2) fixed valid prefix + every short tail (offsets of every byte length, incl. multi-byte characters)
    for prefix in ["2022-05-02T15:30:20", "2022-05-02T15:30:20.5"] {
        let nt = count_strings(16, 5);
        v.push((format!("(d2) parse_rfc3339 / from_str: {:?} + every tail of length <= 5 over TEXT_SIGMA", prefix), nt, "".into(), Box::new(move |i, acc| {
            let s = format!("{}{}", prefix, nth_string(&TEXT_SIGMA, 5, i));
            case_fixed(0, &s, acc);
            case_fixed(1, &s, acc);
        })));
    }
    for (which, prefix) in [(2u8, ""), (2, "2022-0"), (3, ""), (3, "15:3")] {
        let nt = count_strings(16, 4);
        v.push((format!("(d2) {}: {:?} + every tail of length <= 4 over TEXT_SIGMA", if which == 2 { "Date::from_str" } else { "Time::from_str" }, prefix), nt, "".into(), Box::new(move |i, acc| {
            case_fixed(which, &format!("{}{}", prefix, nth_string(&TEXT_SIGMA, 4, i)), acc);
        })));
    }
    v.push(("(d) parse_rfc3339: fractions of length 1..=40 x 4 digit shapes x 3 tails".into(), 40 * 4 * 3, "".into(), Box::new(move |i, acc| {
        let len = (i / 12) as usize + 1;
        let frac = match i / 3 % 4 {
            0 => "0".repeat(len),
            1 => "9".repeat(len),
            2 => "1234567890".repeat(4)[..len].to_string(),
            _ => format!("{}é", "1".repeat(len - 1)),
        };
        let tail = ["Z", "+05:30", ""][(i % 3) as usize];
        case_fixed(0, &format!("2022-05-02T15:30:20.{}{}", frac, tail), acc);
    })));
    // (f) zone patterns on texts whose UTC instant falls outside the representable range
    let offs = crate::alphabets::offs_b();
    let locals = ["5879611-07-12 23:59:59", "5879611-07-12 00:00:00", "5879611-07-11 12:00:00", "-5879611-06-23 00:00:00", "-5879611-06-23 23:59:59", "-5879611-06-24 12:00:00", "5879611-07-13 00:00:00", "-5879611-06-22 23:59:59"];
    let nl = locals.len() as u64;
    let no = offs.len() as u64;
    v.push(("(f) DateTime::parse: local date-times at both range ends x every boundary offset (zone xxxxx)".into(), nl * no, "the UTC instant may be unrepresentable: must be Err, not a panic".into(), Box::new(move |i, acc| {
        let o = offs[(i % no) as usize];
        let a = o.unsigned_abs();
        let text = format!("{} {}{:02}:{:02}:{:02}", locals[(i / no) as usize], if o < 0 { '-' } else { '+' }, a / 3600, a / 60 % 60, a % 60);
        case_parse(2, &text, "y-MM-dd HH:mm:ss xxxxx", acc);
    })));
    // (g) several sub-second fields (parse sums them) and both hour styles, on texts at the end of the day
    let subs = ["n", "nn", "nnn", "nnnn", "nnnnn"];
    let mut gpats: Vec<String> = vec![];
    for a in 0..5 {
        gpats.push(format!("HH:mm:ss {}", subs[a]));
        for b in 0..5 {
            gpats.push(format!("HH:mm:ss {} {}", subs[a], subs[b]).replace("n n", "n.n"));
            gpats.push(format!("hh:mm:ss a {}.{}", subs[a], subs[b]));
            for c in 0..5 {
                gpats.push(format!("HH:mm:ss {}-{}-{}", subs[a], subs[b], subs[c]));
            }
        }
    }
    let gp = gpats.len() as u64;
    v.push(("(g) patterns with one to three sub-second fields x times at the end / start / middle of the day x {Time, DateTime}".into(), gp * 6 * 2, "the formatted text of each time is parsed back; Ok values must lie inside the day".into(), Box::new(move |i, acc| {
        let kind = if i % 2 == 0 { 1 } else { 2 };
        let nod = [86_399_999_999_999u64, 86_399_500_000_000, 86_399_999_000_000, 43_199_999_999_999, 0, 999_999_999][(i / 2 % 6) as usize];
        let pat = &gpats[(i / 12) as usize];
        if let Some(Out::Val(text)) = real_format(kind, 738_000, nod, 0, pat) {
            case_parse(kind, &text, pat, acc);
        }
    })));
    // (h) very long symbol runs ("any length"): each of the 19 symbols repeated up to 70 000 times
    let runs = [64usize, 255, 256, 1_000, 65_535, 65_536, 70_000];
    let vals_h = values();
    v.push(("(h) long runs: 19 symbols x 7 run lengths x {format x 3 types x 2 values, parse of the formatted text x 3 types}".into(), 19 * 7 * 3, "".into(), Box::new(move |i, acc| {
        let kind = (i % 3) as u8;
        let len = runs[(i / 3 % 7) as usize];
        let c = "GyqMwdDeabhHKkmsnXx".chars().nth((i / 21) as usize).unwrap();
        let pat = c.to_string().repeat(len);
        for (d, n, o) in [vals_h[0], vals_h[2]] {
            case_format(kind, d, n, o, &pat, acc);
            if let Some(Out::Val(text)) = real_format(kind, d, n, o, &pat) {
                case_parse(kind, &text, &pat, acc);
            }
        }
        case_parse(kind, "1", &pat, acc);
    })));
    // (i) numerals at the edges of every integer width, in every pair of numeric fields
    let fields: Vec<&'static str> = vec!["y", "yyy", "yyyy", "yyyyy", "yyyyyyyyyy", "yyyyyyyyyyy", "M", "MM", "d", "dd", "D", "DDD", "H", "HH", "h", "K", "k", "m", "s", "n", "nnn", "nnnn", "nnnnn", "w", "q", "e"];
    let numerals: Vec<&'static str> = vec![
        "0", "1", "-1", "-0", "00", "007", "12", "13", "24", "31", "32", "59", "60", "99", "365", "366", "367", "999", "5879611", "5879612", "-5879611", "-5879612", "2147483647", "2147483648", "-2147483647", "-2147483648",
        "-2147483649", "4294967295", "4294967296", "9223372036854775807", "9223372036854775808", "-9223372036854775808", "18446744073709551615", "18446744073709551616", "99999999999999999999999999999999999999999",
    ];
    let (nfld, nnum) = (fields.len() as u64, numerals.len() as u64);
    v.push((format!("(i) every ordered pair of {} numeric fields x every pair of {} edge numerals x 3 parse functions", nfld, nnum), nfld * nfld * nnum * nnum * 3, "values at and next to the limits of i32 / u32 / i64 / u64 and of each calendar field, in the year and in every other field at once".into(), Box::new(move |i, acc| {
        let kind = (i % 3) as u8;
        let r = i / 3;
        let (a, b) = (numerals[(r % nnum) as usize], numerals[(r / nnum % nnum) as usize]);
        let r = r / (nnum * nnum);
        let (fa, fb) = (fields[(r % nfld) as usize], fields[(r / nfld) as usize]);
        case_parse(kind, &format!("{} {}", a, b), &format!("{} {}", fa, fb), acc);
    })));
    // (j) characters whose Unicode case mapping is (or expands to) ASCII letters, put inside every
    // month name, weekday name and day-period text in place of the letters they map to
    let names: Vec<(&'static str, &'static str)> = {
        let mut v: Vec<(&'static str, &'static str)> = vec![];
        for n in ["January", "February", "March", "April", "May", "June", "July", "August", "September", "October", "November", "December"] {
            v.push((n, "MMMM"));
            v.push((n, "MMMMMM"));
        }
        for n in ["Jan", "Feb", "Mar", "Apr", "May", "Jun", "Jul", "Aug", "Sep", "Oct", "Nov", "Dec"] {
            v.push((n, "MMM"));
        }
        for n in ["Sunday", "Monday", "Tuesday", "Wednesday", "Thursday", "Friday", "Saturday"] {
            v.push((n, "eeee"));
        }
        for n in ["Sun", "Mon", "Tue", "Wed", "Thu", "Fri", "Sat"] {
            v.push((n, "eee"));
        }
        for n in ["Su", "Mo", "Tu", "We", "Th", "Fr", "Sa"] {
            v.push((n, "eeeeee"));
        }
        for (n, p) in [("AM", "a"), ("PM", "a"), ("am", "aaa"), ("pm", "aaa"), ("a.m.", "aaaa"), ("p.m.", "aaaa"), ("noon", "b"), ("midnight", "bbbb"), ("AD", "G"), ("BC", "G"), ("Anno Domini", "GGGG"), ("Before Christ", "GGGG")] {
            v.push((n, p));
        }
        v
    };
    let rules: [(&str, &str); 14] = [("st", "\u{fb06}"), ("st", "\u{fb05}"), ("ss", "\u{df}"), ("s", "\u{17f}"), ("i", "\u{131}"), ("i", "\u{130}"), ("k", "\u{212a}"), ("fi", "\u{fb01}"), ("fl", "\u{fb02}"), ("ff", "\u{fb00}"), ("a", "\u{e5}"), ("n", "\u{149}"), ("j", "\u{1f0}"), ("h", "\u{1e96}")];
    let mut alias_inputs: Vec<(String, String)> = vec![];
    for (name, pat) in &names {
        let lower = name.to_lowercase();
        for (from, to) in rules {
            let mut start = 0;
            while let Some(pos) = lower[start..].find(from) {
                let at = start + pos;
                let text = format!("{}{}{}", &name[..at], to, &name[at + from.len()..]);
                for (pre_p, pre_t, post_p, post_t) in [("", "", "", ""), ("", "", " d", " 1"), ("d ", "2 ", "", ""), ("HH:mm ", "12:32 ", "", "")] {
                    alias_inputs.push((format!("{}{}{}", pre_t, text, post_t), format!("{}{}{}", pre_p, pat, post_p)));
                    alias_inputs.push((format!("{}{}{}", pre_t, text.to_uppercase(), post_t), format!("{}{}{}", pre_p, pat, post_p)));
                }
                start = at + from.len();
            }
        }
    }
    let nai = alias_inputs.len() as u64;
    v.push((format!("(j) case-mapping aliases inside names: {} (name, pattern) pairs x 14 substitution rules x every occurrence x 4 contexts x {{as is, upper-cased}} x 3 parse functions", names.len()), nai * 3, "long s, dotless / dotted i, Kelvin sign, sharp s and the st / fi / fl / ff ligatures, whose upper- or lower-case forms are ASCII letters (sometimes two)".into(), Box::new(move |i, acc| {
        let (inp, pat) = &alias_inputs[(i / 3) as usize];
        case_parse((i % 3) as u8, inp, pat, acc);
    })));
    // (k) two parses in a row on one thread: every year of a window (1 March of it), then a landmark
    // text at once - both range ends, leap days, century years. Neither call may panic, and state the
    // first leaves behind must not make the second panic either.
    let landmarks: Vec<(&'static str, &'static str)> = vec![
        ("5879611-07-12", "yyyy-MM-dd"), ("-5879611-06-23", "yyyy-MM-dd"), ("2024-02-29", "yyyy-MM-dd"), ("1900-02-28", "yyyy-MM-dd"), ("2000-02-29", "yyyy-MM-dd"), ("-0005-02-29", "yyyy-MM-dd"),
        ("5879611-193", "yyyy-DDD"), ("-5879611-174", "yyyy-DDD"), ("2024-366", "yyyy-DDD"),
    ];
    let (ylo, yhi): (i64, i64) = if thorough { (-4_000, 4_000) } else { (-850, 850) };
    let nyears = (yhi - ylo + 1) as u64;
    let nlm = landmarks.len() as u64;
    v.push((format!("(k) two parses in a row: 1 March of every year {}..={} first, then each of {} landmark texts x {{Date, DateTime}}", ylo, yhi, nlm), nyears * nlm * 2, "a per-year memo with a wrongly reduced key collides somewhere in a window of consecutive years".into(), Box::new(move |i, acc| {
        let kind = if i % 2 == 0 { 0u8 } else { 2 };
        let (text, pat) = landmarks[(i / 2 % nlm) as usize];
        let y = ylo + (i / (2 * nlm)) as i64;
        if y == 0 {
            return;
        }
        let first = format!("{}{:04}-03-01", if y < 0 { "-" } else { "" }, y.abs());
        case_parse_inner(kind, &first, "yyyy-MM-dd", acc);
        PRED_PARSE.with(|p| *p.borrow_mut() = Some((first.clone(), "yyyy-MM-dd".to_string())));
        case_parse_inner(kind, text, pat, acc);
        PRED_PARSE.with(|p| *p.borrow_mut() = None);
    })));
    // (e) cron
    let nc = count_strings(11, if thorough { 5 } else { 4 });
    let clen = if thorough { 5 } else { 4 };
    v.push((format!("(e) CronSchedule::parse: every field string of length <= {} over 11 characters in each of the 5 positions", clen), nc * 5, "other fields are *".into(), Box::new(move |i, acc| {
        let f = nth_string(&CRON_SIGMA, clen, i / 5);
        let mut fields = vec!["*"; 5];
        fields[(i % 5) as usize] = &f;
        case_cron(&fields.join(" "), acc);
    })));
    v.push(("(e) CronSchedule::parse: every arrangement of 0..=7 fields with 4 kinds of whitespace".into(), 8 * 4 * 4 * 4, "".into(), Box::new(move |i, acc| {
        let nf = (i % 8) as usize;
        let ws = [" ", "  ", "\t", "\n"];
        let (lead, sep, trail) = (["", " ", "\t", "\u{a0}"][(i / 8 % 4) as usize], ws[(i / 32 % 4) as usize], ["", " ", "\n", "é"][(i / 128 % 4) as usize]);
        let expr = format!("{}{}{}", lead, vec!["*"; nf].join(sep), trail);
        case_cron(&expr, acc);
    })));
    v
}

pub fn run(ctx: &Ctx) -> i32 {
    let mut rep = Report::new(ctx);
    rep.rule = "evaluations = real parse / format / from_str / CronSchedule::parse calls on every member of the bounded string families; outcome class must be Ok / Err / String (never a panic, abort or hang) and an Ok value must be a valid in-range value; non-trivial = inputs that are rejected with Err".into();
    rep.assumptions = vec![
        "strings longer than the bounds are reached only along the truncation / substitution families".into(),
        "the run executes in a supervised child process: an abort or hang is traced to the case and reported as a violation".into(),
    ];
    if ctx.trace.is_none() {
        rep.require(&["parse-ok", "parse-err", "format-string", "cron-ok", "cron-err"]);
    }
    // self-test of the supervisor: MC_TEST_ABORT=<index> aborts the process at that index of space (d)/template 1
    let abort_at: Option<u64> = std::env::var("MC_TEST_ABORT").ok().and_then(|v| v.parse().ok());
    for (name, n, note, body) in spaces(ctx.thorough) {
        let is_target = name.starts_with("(d) template \"2022-05-02T15:30:20Z\"");
        rep.sweep(&name, n, &note, |i, acc| {
            if is_target && abort_at == Some(i) {
                std::process::abort();
            }
            body(i, acc)
        });
    }
    rep.finish()
}

pub fn replay(_op: &str, case: &Value, acc: &mut Acc) -> bool {
    match case["kind"].as_str() {
        Some("parse") => {
            let ty = case["ty"].as_u64().unwrap() as u8;
            if case["pred"].is_object() {
                case_parse_inner(ty, case["pred"]["input"].as_str().unwrap(), case["pred"]["pattern"].as_str().unwrap(), &mut Acc::default());
            }
            case_parse(ty, case["input"].as_str().unwrap(), case["pattern"].as_str().unwrap(), acc)
        }
        Some("format") => case_format(case["ty"].as_u64().unwrap() as u8, case["day"].as_i64().unwrap(), case["nod"].as_str().unwrap().parse().unwrap(), case["off"].as_i64().unwrap() as i32, case["pattern"].as_str().unwrap(), acc),
        Some("fixed") => case_fixed(case["which"].as_u64().unwrap() as u8, case["input"].as_str().unwrap(), acc),
        Some("cron") => case_cron(case["expr"].as_str().unwrap(), acc),
        Some("indexed") => {
            let thorough = case["tier"].as_str() == Some("thorough");
            for (name, _, _, body) in spaces(thorough) {
                if Some(name.as_str()) == case["space"].as_str() {
                    body(case["index"].as_u64().unwrap_or(0), acc);
                }
            }
        }
        _ => return false,
    }
    true
}
