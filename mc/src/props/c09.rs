//! C09 — setting or clearing one field changes exactly that field, in local time (E1 + E2).
use crate::alphabets as ab;
use crate::engine::{call, Acc, Ctx, Out, Report, PROFILE};
use crate::machine::{self, dt_apply, DtMenu, DtOp};
use crate::real::{date_day, dt_from_off, dt_instant, off_secs, time_from};
use crate::refmodel::calendar as cal;
use crate::refmodel::fields::{self, CLEAR_NAMES, SET_NAMES};
use crate::refmodel::instant as ins;
use astrolabe::errors::AstrolabeError;
use astrolabe::{Date, DateTime, DateUtilities, OffsetUtilities, TimeUtilities};
use serde_json::{json, Value};

const MARGIN: i128 = 2 * ins::DAY;

fn near_edge(x: i128) -> bool {
    x < ins::MIN_INSTANT + MARGIN || x > ins::MAX_INSTANT - MARGIN
}

fn getters_dt(v: &DateTime) -> [i64; 11] {
    [v.year() as i64, v.month() as i64, v.day() as i64, v.day_of_year() as i64, v.weekday() as i64, v.hour() as i64, v.minute() as i64, v.second() as i64, v.milli() as i64, v.micro() as i64, v.nano() as i64]
}

fn offset_class(day: i64, nod: u64, off: i32) -> &'static str {
    if off == 0 {
        "offset-0"
    } else if ins::split(ins::join(day, nod) + off as i128 * ins::NS).0 != day {
        "local-date-differs-from-utc-date"
    } else {
        "offset-same-date"
    }
}

/// op: 0..=9 setters (with value v), 10..=18 clear_until_<unit>
fn case_dt(day: i64, nod: u64, off: i32, op: usize, v: i64, acc: &mut Acc) {
    case_dt_inner(day, nod, off, op, v, acc);
    if crate::props::anchor::hash(&[day as u64, nod, off as u64, op as u64, v as u64]) % 8 == 0 {
        crate::props::anchor::values(acc, "set/clear (purity probe)", &|| json!({"kind": "dt", "day": day, "nod": nod.to_string(), "off": off, "op": op, "v": v}));
    }
}

fn case_dt_inner(day: i64, nod: u64, off: i32, op: usize, v: i64, acc: &mut Acc) {
    let inst = ins::join(day, nod);
    let local = inst + off as i128 * ins::NS;
    if near_edge(local) || near_edge(inst) {
        acc.branch("skipped-near-range-end");
        return;
    }
    let dt = match dt_from_off(day, nod, off) {
        Some(d) => d,
        None => return,
    };
    acc.transitions += 1;
    acc.states += 1;
    let (dop, expect_local, name) = if op < 10 { (DtOp::Set(op, v), fields::set_field(local, op, v), format!("DateTime::set_{}", SET_NAMES[op])) } else { (DtOp::Clear(op - 10), Some(fields::clear_until(local, op - 10)), format!("DateTime::clear_until_{}", CLEAR_NAMES[op - 10])) };
    if let Some(l2) = expect_local {
        if near_edge(l2) {
            acc.branch("skipped-near-range-end");
            return;
        }
    }
    let got = dt_apply(&dt, &dop);
    let case = || json!({"kind": "dt", "day": day, "nod": nod.to_string(), "off": off, "op": op, "v": v});
    let cls = offset_class(day, nod, off);
    match (expect_local, &got) {
        (Some(l2), Out::Val(r)) => {
            let want = l2 - off as i128 * ins::NS;
            if dt_instant(r) != Some(want) || off_secs(r.get_offset()) != off {
                acc.violation(&name, &format!("wrong-value-{}", cls), case(), format!("local fields {:?} (instant {}), offset {}", fields::all_getters(l2), want, off), format!("{:?} local getters {:?}", r, call(|| getters_dt(r))));
            } else if (day + nod as i64 + op as i64) % 4 == 0 {
                // the getters of the result read the expected local fields (the set field reads v)
                acc.transitions += 11;
                let g = call(|| getters_dt(r));
                if g != Out::Val(fields::all_getters(l2)) {
                    acc.violation(&name, &format!("getters-after-{}", cls), case(), format!("{:?}", fields::all_getters(l2)), g.show());
                }
            }
            if l2 != local {
                acc.nontrivial += 1;
            }
            acc.branch(if op < 10 { "set-accepted" } else { "cleared" });
            if cls == "local-date-differs-from-utc-date" {
                acc.branch("local-date-differs");
            }
        }
        (None, Out::Err(_)) => {
            acc.branch("set-refused");
            acc.nontrivial += 1;
        }
        (Some(l2), other) => acc.violation(&name, &format!("valid-value-refused-or-panic-{}", cls), case(), format!("local fields {:?}", fields::all_getters(l2)), other.show()),
        (None, other) => acc.violation(&name, &format!("invalid-value-not-refused-{}", cls), case(), "Err(OutOfRange)".into(), other.show()),
    }
}

fn case_date(day: i64, op: usize, v: i64, acc: &mut Acc) {
    // op 0..=3 setters, 10..=12 clears
    let local = ins::join(day, 0);
    acc.transitions += 1;
    acc.states += 1;
    if op >= 10 && !ins::representable(fields::clear_until(local, op - 10)) {
        // first partial year of the range: the cleared date does not exist; the statement is silent
        acc.branch("skipped-clear-target-unrepresentable");
        return;
    }
    let d = Date::from_timestamp((day - cal::DAYS_TO_1970) * 86_400);
    let (expect, name) = if op < 10 { (fields::set_field(local, op, v), format!("Date::set_{}", SET_NAMES[op])) } else { (Some(fields::clear_until(local, op - 10)), format!("Date::clear_until_{}", CLEAR_NAMES[op - 10])) };
    let got: Out<Result<i64, bool>> = call(|| {
        let r = match op {
            0 => d.set_year(v as i32),
            1 => d.set_month(v as u32),
            2 => d.set_day(v as u32),
            3 => d.set_day_of_year(v as u32),
            10 => Ok(d.clear_until_year()),
            11 => Ok(d.clear_until_month()),
            _ => Ok(d.clear_until_day()),
        };
        r.map(|x| date_day(&x)).map_err(|e| matches!(e, AstrolabeError::OutOfRange(_)))
    });
    let case = || json!({"kind": "date", "day": day, "op": op, "v": v});
    match (expect, &got) {
        (Some(l2), Out::Val(Ok(g))) if *g == ins::split(l2).0 => acc.branch(if op < 10 { "set-accepted" } else { "cleared" }),
        (None, Out::Val(Err(true))) => acc.branch("set-refused"),
        (e, other) => acc.violation(&name, if day < 0 { "wrong-bc" } else { "wrong-ad" }, case(), format!("{:?}", e.map(|l| cal::ymd(ins::split(l).0))), format!("{:?}", other)),
    }
}

fn case_time(nanos: u64, off: i32, op: usize, v: i64, acc: &mut Acc) {
    // op 4..=9 setters, 13..=18 clears (hour..nano)
    let t = time_from(nanos, off).unwrap();
    acc.transitions += 1;
    acc.states += 1;
    let day = ab::DAY_NS as i128;
    // local time of day, embedded in day 1000 so the date part can absorb the offset
    let local = 1000 * ins::DAY + (nanos as i128 + off as i128 * ins::NS).rem_euclid(day);
    let (expect, name) = if op < 10 { (fields::set_field(local, op, v), format!("Time::set_{}", SET_NAMES[op])) } else { (Some(fields::clear_until(local, op - 10)), format!("Time::clear_until_{}", CLEAR_NAMES[op - 10])) };
    let got: Out<Result<(u64, i32, [u32; 6]), bool>> = call(|| {
        let r = match op {
            4 => t.set_hour(v as u32),
            5 => t.set_minute(v as u32),
            6 => t.set_second(v as u32),
            7 => t.set_milli(v as u32),
            8 => t.set_micro(v as u32),
            9 => t.set_nano(v as u32),
            13 => Ok(t.clear_until_hour()),
            14 => Ok(t.clear_until_minute()),
            15 => Ok(t.clear_until_second()),
            16 => Ok(t.clear_until_milli()),
            17 => Ok(t.clear_until_micro()),
            _ => Ok(t.clear_until_nano()),
        };
        r.map(|x| (x.as_nanos(), off_secs(x.get_offset()), [x.hour(), x.minute(), x.second(), x.milli(), x.micro(), x.nano()])).map_err(|e| matches!(e, AstrolabeError::OutOfRange(_)))
    });
    let case = || json!({"kind": "time", "nanos": nanos.to_string(), "off": off, "op": op, "v": v});
    match (expect, &got) {
        (Some(l2), Out::Val(Ok((n, o, g)))) => {
            let want = (l2 - off as i128 * ins::NS).rem_euclid(day) as u64;
            let f = fields::all_getters(l2);
            let wg = [f[5] as u32, f[6] as u32, f[7] as u32, f[8] as u32, f[9] as u32, f[10] as u32];
            if *n != want || *o != off || *g != wg {
                acc.violation(&name, if off == 0 { "wrong-value-offset-0" } else { "wrong-value-with-offset" }, case(), format!("nanos {} offset {} getters {:?}", want, off, wg), format!("nanos {} offset {} getters {:?}", n, o, g));
            }
            acc.branch(if op < 10 { "set-accepted" } else { "cleared" });
        }
        (None, Out::Val(Err(true))) => acc.branch("set-refused"),
        (e, other) => acc.violation(&name, "refusal-mismatch", case(), format!("{:?}", e.is_some()), format!("{:?}", other)),
    }
}

fn values(setter: usize) -> Vec<i64> {
    let u = |v: Vec<u32>| v.into_iter().map(|x| x as i64).collect::<Vec<i64>>();
    let mut v: Vec<i64> = match setter {
        0 => {
            let mut y: Vec<i64> = ab::landmark_years();
            y.extend([0, -5_879_612, 5_879_612, i32::MIN as i64, i32::MAX as i64, -3, 3]);
            y
        }
        1 => (0..=14).chain(u(ab::u32_b(12, 1))).collect(),
        2 => (0..=33).chain(u(ab::u32_b(31, 1))).collect(),
        3 => (0..=368).chain(u(ab::u32_b(366, 1))).collect(),
        4 => (0..=25).chain(u(ab::u32_b(23, 3600))).collect(),
        5 => (0..=61).chain(u(ab::u32_b(59, 60))).collect(),
        6 => (0..=61).chain(u(ab::u32_b(59, 1))).collect(),
        7 => u(ab::u32_b(999, 1_000_000)).into_iter().chain([7, 500]).collect(),
        8 => u(ab::u32_b(999_999, 1_000)).into_iter().chain([7, 500_000]).collect(),
        _ => u(ab::u32_b(999_999_999, 1)).into_iter().chain([7, 500_000_000]).collect(),
    };
    v.sort();
    v.dedup();
    v
}

pub fn run(ctx: &Ctx) -> i32 {
    let mut rep = Report::new(ctx);
    rep.rule = "states = distinct (value, offset, operation, candidate) tuples and E2 machine states; transitions = real set_*/clear_until_* calls (and the 11 trait getters on a quarter of the accepted results) compared with field replacement / truncation on the decomposed local instant (instant + offset); non-trivial = results that differ from the receiver plus refusals".into();
    rep.assumptions = vec![
        "only the trait getters are read on offset-bearing values; values whose local or UTC instant lies within two days of the range ends are not judged (C10's margin)".into(),
        "set_milli keeps ns mod 1e6, set_micro keeps ns mod 1e3, set_nano replaces the sub-second part (the API's own getter definitions)".into(),
    ];
    rep.require(&["set-accepted", "set-refused", "cleared", "local-date-differs"]);
    let checked = PROFILE == "checked";
    // op list: (op, value)
    let mut ops: Vec<(usize, i64)> = vec![];
    for s in 0..10 {
        for v in values(s) {
            ops.push((s, v));
        }
    }
    for c in 10..19 {
        ops.push((c, 0));
    }
    let nops = ops.len() as u64;
    let days = ab::days_b_small();
    let nanos = ab::nanos_b();
    let mut inst: Vec<(i64, u64)> = vec![];
    for d in &days {
        for n in &nanos {
            inst.push((*d, *n));
        }
    }
    let offs = ab::offs_b();
    let (ni, no) = (inst.len() as u64, offs.len() as u64);
    rep.sweep("DateTime: INST_Q x OFFS_B x (10 setters x candidates + 9 clears)", ni * no * nops, "full cross product", |i, acc| {
        let (op, v) = ops[(i % nops) as usize];
        let o = offs[(i / nops % no) as usize];
        let (d, n) = inst[(i / (nops * no)) as usize];
        case_dt(d, n, o, op, v, acc);
        if i % 30_000_001 == 0 {
            acc.sample(json!({"op": if op < 10 { format!("set_{}({})", SET_NAMES[op], v) } else { format!("clear_until_{}", CLEAR_NAMES[op - 10]) }, "day": d, "nod": n, "offset": o}));
        }
    });
    if ctx.thorough && checked {
        let sub: Vec<(i64, u64)> = inst.iter().step_by((inst.len() / 40).max(1)).cloned().collect();
        let ns = sub.len() as u64;
        let all_off = 172_799u64;
        rep.sweep("DateTime: 40 instants x all 172 799 offsets x all operations", ns * all_off * nops, "complete offset axis", |i, acc| {
            let (op, v) = ops[(i % nops) as usize];
            let o = (i / nops % all_off) as i32 - 86_399;
            let (d, n) = sub[(i / (nops * all_off)) as usize];
            case_dt(d, n, o, op, v, acc);
        });
    } else {
        // every whole-minute offset on a 12-instant subset
        let sub: Vec<(i64, u64)> = inst.iter().step_by((inst.len() / 12).max(1)).cloned().collect();
        let ns = sub.len() as u64;
        let step = if ctx.thorough { 1 } else { 60 };
        let cnt = 172_799u64 / step;
        rep.sweep("DateTime: instant subset x offset lattice x all operations", ns * cnt * nops, "every whole-minute offset (every offset in thorough/fast)", move |i, acc| {
            let (op, v) = ops_static(i % nops);
            let o = ((i / nops % cnt) * step) as i32 - 86_399 + if step == 60 { 59 } else { 0 };
            let (d, n) = sub[(i / (nops * cnt)) as usize];
            case_dt(d, n, o, op, v, acc);
        });
    }
    // Date
    let dops: Vec<(usize, i64)> = ops.iter().cloned().filter(|(o, _)| *o < 4 || (10..13).contains(o)).collect();
    let mut dd = ab::days_b();
    dd.extend(ab::window_days().into_iter().step_by(7));
    let (nd, ndo) = (dd.len() as u64, dops.len() as u64);
    rep.sweep("Date: DAYS_B + window lattice x (4 setters x candidates + 3 clears)", nd * ndo, "", |i, acc| {
        let (op, v) = dops[(i % ndo) as usize];
        case_date(dd[(i / ndo) as usize], op, v, acc);
    });
    // Time
    let tops: Vec<(usize, i64)> = ops.iter().cloned().filter(|(o, _)| (4..10).contains(o) || (13..19).contains(o)).collect();
    let tg: Vec<u64> = (0..1440u64).step_by(if ctx.thorough { 1 } else { 7 }).flat_map(|m| [0u64, 1, 999_999_999, 123_456_789].into_iter().map(move |s| m * 60_000_000_000 + s)).collect();
    let (nt, nto) = (tg.len() as u64, tops.len() as u64);
    rep.sweep("Time: minute grid x sub-second bounds x OFFS_B x (6 setters x candidates + 6 clears)", nt * no * nto, "", |i, acc| {
        let (op, v) = tops[(i % nto) as usize];
        case_time(tg[(i / (nto * no)) as usize], offs[(i / nto % no) as usize], op, v, acc);
    });
    machine::run_datetime_machine(&mut rep, if ctx.thorough { 3 } else { 2 }, DtMenu::SetClear);
    machine::run_datetime_machine(&mut rep, if ctx.thorough { 5 } else { 4 }, DtMenu::Mixed);
    machine::run_datetime_paths(&mut rep, if ctx.thorough { 4 } else { 3 }, DtMenu::SetClear);
    machine::run_datetime_paths(&mut rep, if ctx.thorough { 5 } else { 4 }, DtMenu::Mixed);
    rep.finish()
}

// the op table again, for the `move` closure of the lattice sweep
fn ops_static(k: u64) -> (usize, i64) {
    use std::sync::OnceLock;
    static OPS: OnceLock<Vec<(usize, i64)>> = OnceLock::new();
    let ops = OPS.get_or_init(|| {
        let mut ops: Vec<(usize, i64)> = vec![];
        for s in 0..10 {
            for v in values(s) {
                ops.push((s, v));
            }
        }
        for c in 10..19 {
            ops.push((c, 0));
        }
        ops
    });
    ops[k as usize]
}

pub fn replay(_op: &str, case: &Value, acc: &mut Acc) -> bool {
    let op = case["op"].as_u64().unwrap_or(0) as usize;
    let v = case["v"].as_i64().unwrap_or(0);
    match case["kind"].as_str() {
        Some("dt") => case_dt(case["day"].as_i64().unwrap(), case["nod"].as_str().unwrap().parse().unwrap(), case["off"].as_i64().unwrap() as i32, op, v, acc),
        Some("date") => case_date(case["day"].as_i64().unwrap(), op, v, acc),
        Some("time") => case_time(case["nanos"].as_str().unwrap().parse().unwrap(), case["off"].as_i64().unwrap() as i32, op, v, acc),
        Some("machine") => machine::replay_datetime(case, acc),
        _ => return false,
    }
    true
}
