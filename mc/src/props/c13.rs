//! C13 — RFC 3339 timestamps are read and written exactly (E1).
use crate::alphabets as ab;
use crate::engine::{call, Acc, Ctx, Out, Report, PROFILE};
use crate::real::{dt_from_off, dt_instant, off_secs};
use crate::refmodel::calendar as cal;
use crate::refmodel::instant as ins;
use astrolabe::{DateTime, OffsetUtilities, Precision};
use serde_json::{json, Value};

const PRECS: [(usize, &str); 5] = [(0, "Seconds"), (2, "Centis"), (3, "Millis"), (6, "Micros"), (9, "Nanos")];

fn prec(k: usize) -> Precision {
    match k {
        0 => Precision::Seconds,
        1 => Precision::Centis,
        2 => Precision::Millis,
        3 => Precision::Micros,
        _ => Precision::Nanos,
    }
}

/// RFC 3339 `date-time` recogniser (upper-case T/Z): returns (local instant, offset seconds, fraction digits)
pub fn recognise(s: &str) -> Option<(i128, i32, String)> {
    let b = s.as_bytes();
    if !s.is_ascii() || b.len() < 20 {
        return None;
    }
    let num = |r: std::ops::Range<usize>| -> Option<u32> {
        if b[r.clone()].iter().all(|c| c.is_ascii_digit()) {
            s[r].parse().ok()
        } else {
            None
        }
    };
    let (y, mo, d, h, mi, se) = (num(0..4)?, num(5..7)?, num(8..10)?, num(11..13)?, num(14..16)?, num(17..19)?);
    if b[4] != b'-' || b[7] != b'-' || b[10] != b'T' || b[13] != b':' || b[16] != b':' {
        return None;
    }
    let day = cal::valid_day(y as i64, mo, d)?;
    if y == 0 || h > 23 || mi > 59 || se > 59 {
        return None;
    }
    let mut i = 19;
    let mut frac = String::new();
    if b[i] == b'.' {
        i += 1;
        while i < b.len() && b[i].is_ascii_digit() {
            frac.push(b[i] as char);
            i += 1;
        }
        if frac.is_empty() {
            return None;
        }
    }
    let off = if i < b.len() && b[i] == b'Z' && i + 1 == b.len() {
        0
    } else if i + 6 == b.len() && (b[i] == b'+' || b[i] == b'-') && b[i + 3] == b':' {
        let (oh, om) = (num(i + 1..i + 3)?, num(i + 4..i + 6)?);
        if oh > 23 || om > 59 {
            return None;
        }
        let v = (oh * 3600 + om * 60) as i32;
        if b[i] == b'-' { -v } else { v }
    } else {
        return None;
    };
    let mut ns: u64 = 0;
    for (k, c) in frac.chars().enumerate() {
        if k < 9 {
            ns += (c as u64 - 48) * 10u64.pow(8 - k as u32);
        }
    }
    Some((ins::join(day, (h as u64 * 3600 + mi as u64 * 60 + se as u64) * 1_000_000_000 + ns), off, frac))
}

fn reference_format(local: i128, off: i32, digits: usize) -> String {
    let f = ins::decompose(local);
    let mut s = format!("{:04}-{:02}-{:02}T{:02}:{:02}:{:02}", f.year, f.month, f.dom, f.hour, f.minute, f.second);
    if digits > 0 {
        s.push('.');
        s.push_str(&format!("{:09}", f.sub)[..digits]);
    }
    if off == 0 {
        s.push('Z');
    } else {
        let a = off.unsigned_abs();
        s.push_str(&format!("{}{:02}:{:02}", if off < 0 { '-' } else { '+' }, a / 3600, a / 60 % 60));
    }
    s
}

const ANCHOR_DAY: i64 = 738_276; // 2022-05-02

fn case_write(day: i64, nod: u64, off: i32, k: usize, acc: &mut Acc) {
    case_write_after(None, day, nod, off, k, acc)
}

thread_local! {
    /// a pattern formatted (and discarded) immediately before the next write on this thread
    static PRED_PATTERN: std::cell::RefCell<Option<String>> = std::cell::RefCell::new(None);
}

/// the value is first formatted with an arbitrary pattern (result discarded), then written as RFC 3339
fn case_write_after_format(pattern: &str, day: i64, nod: u64, off: i32, k: usize, acc: &mut Acc) {
    if let Some(x) = dt_from_off(day, nod, off) {
        let _ = call(|| x.format(pattern));
        PRED_PATTERN.with(|p| *p.borrow_mut() = Some(pattern.to_string()));
        case_write_after(None, day, nod, off, k, acc);
        PRED_PATTERN.with(|p| *p.borrow_mut() = None);
        acc.branch("write-after-a-format-call");
    }
}

/// `pred`: a day number written (and discarded) immediately before, on the same thread
fn case_write_after(pred: Option<i64>, day: i64, nod: u64, off: i32, k: usize, acc: &mut Acc) {
    let x = match dt_from_off(day, nod, off) {
        Some(x) => x,
        None => return,
    };
    if let Some(p) = pred {
        match dt_from_off(p, nod, off) {
            Some(px) => {
                let _ = call(|| px.format_rfc3339(prec(k)));
            }
            None => return,
        }
    }
    let local = ins::join(day, nod) + off as i128 * ins::NS;
    let ly = ins::decompose(local).year;
    if !(1..=9999).contains(&ly) {
        return;
    }
    acc.transitions += 2;
    acc.states += 1;
    let pred_pattern = PRED_PATTERN.with(|p| p.borrow().clone());
    let case = || json!({"kind": "write", "day": day, "nod": nod.to_string(), "off": off, "prec": k, "pred": pred, "pred_pattern": pred_pattern});
    let got = call(|| x.format_rfc3339(prec(k)));
    if pred.is_some() {
        acc.branch("write-after-another-value");
    }
    let digits = PRECS[k].0;
    let want = reference_format(local, off, digits);
    let s = match &got {
        Out::Val(s) => s.clone(),
        other => {
            acc.violation("DateTime::format_rfc3339", "panic", case(), want, other.show());
            return;
        }
    };
    if recognise(&s).is_none() || s != want {
        acc.violation("DateTime::format_rfc3339", &format!("not-the-rfc3339-rendering-{}", PRECS[k].1), case(), want.clone(), s.clone());
        return;
    }
    // read back: instant truncated to the precision, same offset
    let unit = 10i128.pow(9 - digits as u32);
    let inst = ins::join(day, nod);
    let want_inst = inst - inst.rem_euclid(unit);
    let back = call(|| DateTime::parse_rfc3339(&s).map(|v| (dt_instant(&v), off_secs(v.get_offset()))).map_err(|e| e.to_string()));
    match &back {
        Out::Val(Ok((Some(i), o))) if *i == want_inst && *o == off => acc.branch("write-read-roundtrip"),
        other => acc.violation("DateTime::parse_rfc3339", "own-output-not-read-back", case(), format!("instant {} offset {}", want_inst, off), other.show()),
    }
    if nod % 1_000_000_000 != 0 {
        acc.nontrivial += 1;
    }
}

/// expected: Some((instant, offset)) = must be accepted with exactly that; None = must be rejected
fn case_read(s: &str, expect: Option<(i128, i32)>, class: &str, acc: &mut Acc) {
    acc.transitions += 1;
    acc.states += 1;
    let got = call(|| DateTime::parse_rfc3339(s).map(|v| (dt_instant(&v), off_secs(v.get_offset()))).map_err(|e| e.to_string()));
    let case = || json!({"kind": "read", "text": s});
    match (expect, &got) {
        (Some((i, o)), Out::Val(Ok((Some(gi), go)))) if *gi == i && *go == o => acc.branch("read-accepted"),
        (None, Out::Val(Err(_))) => {
            acc.branch("read-rejected");
            acc.nontrivial += 1;
        }
        (Some((i, o)), other) => acc.violation("DateTime::parse_rfc3339", &format!("grammatical-timestamp-{}", class), case(), format!("instant {} offset {}", i, o), other.show()),
        (None, other) => acc.violation("DateTime::parse_rfc3339", &format!("out-of-range-field-accepted-{}", class), case(), "Err".into(), other.show()),
    }
    // FromStr is the same reader
    if expect.is_some() {
        let via: Out<bool> = call(|| s.parse::<DateTime>().is_ok());
        if via != Out::Val(true) {
            acc.violation("DateTime::from_str", &format!("grammatical-timestamp-{}", class), case(), "Ok".into(), via.show());
        }
    }
}

fn fraction_shapes(len: usize) -> Vec<String> {
    let mut v = vec!["0".repeat(len), "9".repeat(len), "1234567890".repeat(4)[..len].to_string()];
    for p in 0..len {
        let mut s = "0".repeat(len);
        s.replace_range(p..p + 1, "1");
        v.push(s);
    }
    v
}

pub fn run(ctx: &Ctx) -> i32 {
    let mut rep = Report::new(ctx);
    rep.rule = "write side: states = (instant, offset, precision); the output must equal the reference RFC 3339 rendering, be accepted by an ABNF recogniser, and parse back to the instant truncated to the precision with the same offset. read side: every string of the bounded ABNF product must be accepted with exactly the denoted instant (fraction truncated to ns) and offset; every single-field mutation to an out-of-range value must be rejected; non-trivial = values with a sub-second part and rejected strings".into();
    rep.assumptions = vec!["second 60, lower-case t/z, year 0000 and non-grammatical strings are not judged here (C14 judges panics on them)".into()];
    rep.require(&["write-read-roundtrip", "read-accepted", "read-rejected", "write-after-another-value", "write-after-a-format-call"]);
    let checked = PROFILE == "checked";
    let d1 = cal::days_from_civil(1, 1, 1);
    let d9999 = cal::days_from_civil(9999, 12, 31);
    let step: u64 = if ctx.thorough && checked { 1 } else if ctx.thorough { 3 } else { 11 };
    let phase = ctx.seed % step;
    let ndays = ((d9999 - d1) as u64 + 1 - phase + step - 1) / step;
    rep.sweep("write: days of years 1..=9999 x {00:00:00, 23:59:59.999999999} x {Z, +05:30} x 5 precisions", ndays * 2 * 2 * 5, "every day (thorough) / every 11th day (quick)", move |i, acc| {
        let k = (i % 5) as usize;
        let off = if i / 5 % 2 == 0 { 0 } else { 19_800 };
        let nod = if i / 10 % 2 == 0 { 0 } else { ab::DAY_NS - 1 };
        let day = d1 + (phase + (i / 20) * step) as i64;
        case_write(day, nod, off, k, acc);
        // purity probe: a fixed anchor value is written after every value of the sweep
        let a_local = ins::join(ANCHOR_DAY, nod) + off as i128 * ins::NS;
        if let Some(ax) = dt_from_off(ANCHOR_DAY, nod, off) {
            acc.transitions += 1;
            let got = call(|| ax.format_rfc3339(prec(k)));
            let want = reference_format(a_local, off, PRECS[k].0);
            if got != Out::Val(want.clone()) {
                acc.violation("DateTime::format_rfc3339", "rendering-depends-on-the-previous-call", json!({"kind": "write", "day": ANCHOR_DAY, "nod": nod.to_string(), "off": off, "prec": k, "pred": day}), want, got.show());
            }
        }
        if i % 10_000_019 == 0 {
            acc.sample(json!({"op": "format_rfc3339", "day": day, "nod": nod, "off": off, "precision": PRECS[k].1}));
        }
    });
    // history independence: each landmark day right after a day at one of the code's own distances
    let hdays: Vec<i64> = ab::days_b().into_iter().filter(|d| *d >= d1 && *d <= d9999).chain([d1, d1 + 1, 730_179, 719_162, 719_468, 146_097]).collect();
    let dist = ab::dist_b();
    let (nh, ndist) = (hdays.len() as u64, dist.len() as u64);
    rep.sweep("write after another write: landmark days x DIST_B (epoch shifts and cycle lengths of the code) x {Z, +05:30} x 2 precisions", nh * ndist * 4, "the rendering of a value must not depend on the value rendered just before", |i, acc| {
        let k = if i % 2 == 0 { 0 } else { 4 };
        let off = if i / 2 % 2 == 0 { 0 } else { 19_800 };
        let d = hdays[(i / 4 % nh) as usize];
        let p = d + dist[(i / (4 * nh)) as usize];
        if p >= d1 && p <= d9999 {
            case_write_after(Some(p), d, 45_296_123_456_789, off, k, acc);
        }
    });
    // cross-API history: any format call first (every symbol at widths 1..=10), then the RFC 3339 writer
    let syms = "GyqMwdDeabhHKkmsnXx";
    let pats: Vec<String> = syms.chars().flat_map(|c| (1..=10usize).map(move |w| c.to_string().repeat(w))).collect();
    let hv: [(i64, u64, i32); 4] = [(738_276, 45_296_123_456_789, 0), (738_276, 86_399_999_999_999, 19_800), (0, 1, 0), (d9999, 999_999_999, -3_600)];
    let np = pats.len() as u64;
    rep.sweep("write right after a format call: 19 symbols x widths 1..=10 x 4 values x 5 precisions", np * 4 * 5, "the RFC 3339 writer must not depend on the pattern formatted before", |i, acc| {
        let (d, n, o) = hv[(i / 5 % 4) as usize];
        case_write_after_format(&pats[(i / 20) as usize], d, n, o, (i % 5) as usize, acc);
    });
    let days: Vec<i64> = ab::days_b().into_iter().filter(|d| *d > d1 + 2 && *d < d9999 - 2).collect();
    let nanos = [0u64, 1, 9_999_999, 10_000_000, 999_999_999, 45_296_123_456_789, ab::DAY_NS - 1];
    let mut inst = vec![];
    for d in days.iter().step_by(2) {
        for n in nanos {
            inst.push((*d, n));
        }
    }
    let ni = inst.len() as u64;
    rep.sweep("write: boundary instants x all 2 879 whole-minute offsets x 5 precisions", ni * 2_879 * 5, "", |i, acc| {
        let (d, n) = inst[(i / (2_879 * 5)) as usize];
        case_write(d, n, (i / 5 % 2_879) as i32 * 60 - 86_340, (i % 5) as usize, acc);
    });
    // read side
    let rdays: Vec<i64> = ab::days_b().into_iter().filter(|d| *d >= d1 && *d <= d9999).collect();
    let times = [(0u32, 0u32, 0u32), (12, 34, 56), (23, 59, 59)];
    let offs = [("Z", 0i32), ("+00:00", 0), ("-00:00", 0), ("+23:59", 86_340), ("-23:59", -86_340), ("+05:30", 19_800), ("-07:52", -28_320)];
    let mut fracs: Vec<String> = vec![String::new()];
    for len in 1..=40 {
        fracs.extend(fraction_shapes(len));
    }
    let (nrd, nfr) = (rdays.len() as u64, fracs.len() as u64);
    rep.extra.insert("fraction_strings".into(), json!(nfr));
    rep.sweep("read: dates x times x fractions of every length 1..=40 x offsets", nrd * 3 * nfr * 7, "bounded ABNF product", |i, acc| {
        let (otxt, osec) = offs[(i % 7) as usize];
        let fr = &fracs[(i / 7 % nfr) as usize];
        let (h, m, s) = times[(i / (7 * nfr) % 3) as usize];
        let day = rdays[(i / (21 * nfr)) as usize];
        let (y, mo, d) = cal::ymd(day);
        let text = format!("{:04}-{:02}-{:02}T{:02}:{:02}:{:02}{}{}{}", y, mo, d, h, m, s, if fr.is_empty() { "" } else { "." }, fr, otxt);
        let mut ns = 0u64;
        for (k, c) in fr.chars().enumerate() {
            if k < 9 {
                ns += (c as u64 - 48) * 10u64.pow(8 - k as u32);
            }
        }
        let local = ins::join(day, (h as u64 * 3600 + m as u64 * 60 + s as u64) * 1_000_000_000 + ns);
        let class = if fr.len() > 19 { "fraction>19-digits" } else if fr.len() > 9 { "fraction>9-digits" } else { "fraction<=9-digits" };
        case_read(&text, Some((local - osec as i128 * ins::NS, osec)), class, acc);
        if i % 3_000_017 == 0 {
            acc.sample(json!({"op": "parse_rfc3339", "text": text}));
        }
    });
    // every whole-minute offset spelled out, on three base timestamps
    rep.sweep("read: 3 base timestamps x every whole-minute offset spelling (+hh:mm / -hh:mm)", 3 * 2_879, "", |i, acc| {
        let o = (i % 2_879) as i32 * 60 - 86_340;
        let a = o.unsigned_abs();
        let base = ["2022-05-02T15:30:20", "0001-01-01T00:00:00.5", "9999-12-31T23:59:59.999999999"][(i / 2_879) as usize];
        let text = format!("{}{}{:02}:{:02}", base, if o < 0 { '-' } else { '+' }, a / 3600, a / 60 % 60);
        match recognise(&text) {
            Some((local, off, _)) => case_read(&text, Some((local - off as i128 * ins::NS, off)), if o < 0 && o > -3600 { "negative-offset-below-one-hour" } else { "offset-spelling" }, acc),
            None => acc.violation("harness", "recogniser-rejects-generated-text", json!({"text": text}), "recognised".into(), "rejected".into()),
        }
    });
    // field mutations
    let mut muts: Vec<(String, &'static str)> = vec![];
    for base_date in ["2022-05-02", "2024-02-29", "1999-12-31", "0001-01-01"] {
        for tail in ["T15:30:20Z", "T15:30:20.5+05:30", "T00:00:00.000000001-23:59"] {
            let s = format!("{}{}", base_date, tail);
            let rep_at = |pos: usize, new: &str| {
                let mut t = s.clone();
                t.replace_range(pos..pos + new.len(), new);
                t
            };
            muts.push((rep_at(5, "00"), "month-00"));
            muts.push((rep_at(5, "13"), "month-13"));
            muts.push((rep_at(5, "99"), "month-99"));
            muts.push((rep_at(8, "00"), "day-00"));
            muts.push((rep_at(8, "32"), "day-32"));
            muts.push((rep_at(11, "24"), "hour-24"));
            muts.push((rep_at(11, "99"), "hour-99"));
            muts.push((rep_at(14, "60"), "minute-60"));
            if tail.len() > 10 {
                let l = s.len();
                muts.push((rep_at(l - 5, "24"), "offset-hour-24"));
                muts.push((rep_at(l - 2, "60"), "offset-minute-60"));
            }
        }
    }
    for (d, _) in [("2023-02-29", 0), ("2022-02-30", 0), ("2022-04-31", 0), ("1900-02-29", 0), ("2100-02-29", 0), ("2022-06-31", 0), ("2022-09-31", 0), ("2022-11-31", 0)] {
        muts.push((format!("{}T12:00:00Z", d), "month-length"));
        muts.push((format!("{}T12:00:00.25+01:00", d), "month-length"));
    }
    rep.sweep("read: single-field mutations to out-of-range values", muts.len() as u64, "month 00/13, day 00/32, month lengths, hour 24, minute 60, offset hour 24, offset minute 60", |i, acc| {
        let (s, c) = &muts[i as usize];
        if recognise(s).is_some() {
            acc.violation("harness", "mutation-still-grammatical", json!({"text": s}), "out-of-range".into(), "recogniser accepts".into());
        }
        case_read(s, None, c, acc);
    });
    rep.finish()
}

pub fn replay(_op: &str, case: &Value, acc: &mut Acc) -> bool {
    match case["kind"].as_str() {
        Some("write") if case["pred_pattern"].is_string() => case_write_after_format(case["pred_pattern"].as_str().unwrap(), case["day"].as_i64().unwrap(), case["nod"].as_str().unwrap().parse().unwrap(), case["off"].as_i64().unwrap() as i32, case["prec"].as_u64().unwrap() as usize, acc),
        Some("write") => case_write_after(case["pred"].as_i64(), case["day"].as_i64().unwrap(), case["nod"].as_str().unwrap().parse().unwrap(), case["off"].as_i64().unwrap() as i32, case["prec"].as_u64().unwrap() as usize, acc),
        Some("read") => {
            let s = case["text"].as_str().unwrap();
            let e = recognise(s).map(|(l, o, _)| (l - o as i128 * ins::NS, o));
            case_read(s, e, "replay", acc)
        }
        _ => return false,
    }
    true
}
