//! C02 — weekday, day-of-year, ISO week, quarter follow the calendar for every day (E1).
use crate::alphabets as ab;
use crate::engine::{call, call_res, Acc, Ctx, Out, Report, PROFILE};
use crate::real::{date_day, date_from_day};
use crate::refmodel::calendar::{self as cal, Walker};
use astrolabe::{Date, DateTime, DateUtilities};
use serde_json::{json, Value};

const WIDE: [&str; 7] = ["Sunday", "Monday", "Tuesday", "Wednesday", "Thursday", "Friday", "Saturday"];

fn era(day: i64) -> &'static str {
    if day < 0 {
        "bc"
    } else {
        "ad"
    }
}

/// getters weekday() and day_of_year() on one day
fn case_getters(w: &Walker, use_dt: bool, acc: &mut Acc) {
    acc.transitions += 2;
    acc.states += 1;
    let ts = (w.day - cal::DAYS_TO_1970) * 86_400;
    let got = if use_dt {
        call(|| {
            let v = DateTime::from_timestamp(ts);
            (v.weekday(), v.day_of_year())
        })
    } else {
        call(|| {
            let v = Date::from_timestamp(ts);
            (v.weekday(), v.day_of_year())
        })
    };
    let ty = if use_dt { "DateTime" } else { "Date" };
    match &got {
        Out::Val((wd, doy)) => {
            if *wd as u32 != w.wd {
                acc.violation(&format!("{}::weekday", ty), &format!("weekday-{}", era(w.day)), json!({"day": w.day, "datetime": use_dt, "kind": "getters"}), w.wd.to_string(), wd.to_string());
            }
            if *doy != w.doy {
                acc.violation(&format!("{}::day_of_year", ty), &format!("doy-{}", era(w.day)), json!({"day": w.day, "datetime": use_dt, "kind": "getters"}), w.doy.to_string(), doy.to_string());
            }
        }
        other => acc.violation(&format!("{}::weekday", ty), "getter-panic", json!({"day": w.day, "datetime": use_dt, "kind": "getters"}), "values".into(), other.show()),
    }
    if w.wd != 0 || w.doy != 1 {
        acc.nontrivial += 1;
    }
    acc.branch(if w.day < 0 { "getters-bc" } else { "getters-ad" });
}

fn expected_e(width: usize, wd: u32) -> String {
    let mon = (wd + 6) % 7 + 1;
    match width {
        1 => format!("{}", wd + 1),
        2 => format!("{:02}", wd + 1),
        3 => WIDE[wd as usize][..3].to_string(),
        4 => WIDE[wd as usize].to_string(),
        5 => WIDE[wd as usize][..1].to_string(),
        6 => WIDE[wd as usize][..2].to_string(),
        7 => format!("{}", mon),
        8 => format!("{:02}", mon),
        _ => format!("{}", wd + 1), // over-long run: default width (`e`)
    }
}

/// format("w q e D") on one day (Date or DateTime), plus every `e` width when `all_e`
fn case_format(w: &Walker, use_dt: bool, all_e: bool, acc: &mut Acc) {
    acc.transitions += 1;
    let ts = (w.day - cal::DAYS_TO_1970) * 86_400;
    let wk = cal::iso_week(w.day);
    let q = (w.m - 1) / 3 + 1;
    let expect = format!("{} {} {} {}", wk, q, w.wd + 1, w.doy);
    let got = if use_dt { call(|| DateTime::from_timestamp(ts).format("w q e D")) } else { call(|| Date::from_timestamp(ts).format("w q e D")) };
    let ty = if use_dt { "DateTime" } else { "Date" };
    let case = || json!({"day": w.day, "datetime": use_dt, "kind": "format", "all_e": all_e});
    match &got {
        Out::Val(s) if *s == expect => {}
        Out::Val(s) => {
            let g: Vec<&str> = s.split(' ').collect();
            let e: Vec<&str> = expect.split(' ').collect();
            let names = ["w", "q", "e", "D"];
            let mut hit = false;
            for i in 0..4 {
                if g.len() == 4 && g[i] != e[i] {
                    hit = true;
                    acc.violation(&format!("{}::format({})", ty, names[i]), &format!("format-{}-{}", names[i], era(w.day)), case(), e[i].to_string(), g[i].to_string());
                }
            }
            if !hit {
                acc.violation(&format!("{}::format", ty), "format-shape", case(), expect.clone(), s.clone());
            }
        }
        other => acc.violation(&format!("{}::format", ty), "format-panic", case(), expect.clone(), other.show()),
    }
    match wk {
        1 if w.m == 12 => acc.branch("week1-in-december"),
        52 | 53 if w.m == 1 => acc.branch("week52/53-in-january"),
        53 => acc.branch("week53"),
        _ => {}
    }
    if all_e {
        for width in 1..=10usize {
            acc.transitions += 1;
            let pat = "e".repeat(width);
            let exp = expected_e(width, w.wd);
            let got = if use_dt { call(|| DateTime::from_timestamp(ts).format(&pat)) } else { call(|| Date::from_timestamp(ts).format(&pat)) };
            match &got {
                Out::Val(s) if *s == exp => {}
                other => acc.violation(&format!("{}::format(e*)", ty), &format!("format-e-width-{}", era(w.day)), json!({"day": w.day, "datetime": use_dt, "kind": "format", "all_e": true, "width": width}), exp, other.show()),
            }
        }
        acc.branch("e-widths");
    }
}

/// set_day_of_year(n) from the date of `from_day`; lands on (same year, n) or is refused
fn case_set_doy(from_day: i64, n: u32, use_dt: bool, acc: &mut Acc) {
    acc.transitions += 1;
    acc.states += 1;
    let (a, _, _) = cal::civil_from_days(from_day);
    let target = cal::days_from_civil(a, 1, 1) + n as i64 - 1;
    let expect = if n >= 1 && n <= cal::year_len(a) && (cal::MIN_DAY..=cal::MAX_DAY).contains(&target) { Some(target) } else { None };
    let ts = (from_day - cal::DAYS_TO_1970) * 86_400;
    let got: Out<i64> = if use_dt {
        call_res(|| DateTime::from_timestamp(ts).set_day_of_year(n).map(|v| v.timestamp().div_euclid(86_400) + cal::DAYS_TO_1970))
    } else {
        match date_from_day(from_day) {
            Out::Val(d) => call_res(|| d.set_day_of_year(n).map(|v| date_day(&v))),
            Out::Err(e) => Out::Err(e),
            Out::Panic(p) => Out::Panic(p),
        }
    };
    let ty = if use_dt { "DateTime" } else { "Date" };
    let case = || json!({"from_day": from_day, "n": n, "datetime": use_dt, "kind": "set_doy"});
    match (expect, &got) {
        (Some(t), Out::Val(g)) if *g == t => acc.branch("set-doy-lands"),
        (None, Out::Err(_)) => {
            acc.branch("set-doy-refused");
            acc.nontrivial += 1;
        }
        (Some(t), other) => acc.violation(&format!("{}::set_day_of_year", ty), &format!("set-doy-wrong-{}", if a <= 0 { "bc" } else { "ad" }), case(), format!("day {}", t), other.show()),
        (None, other) => acc.violation(&format!("{}::set_day_of_year", ty), "set-doy-not-refused", case(), "Err(OutOfRange)".into(), other.show()),
    }
}

/// DateTime::set_day_of_year under an offset that puts the local date on another day than the UTC date:
/// the day of year is a *local* field
fn case_set_doy_offset(from_day: i64, nod: u64, off: i32, n: u32, acc: &mut Acc) {
    use crate::refmodel::instant as ins;
    let x = match crate::real::dt_from_off(from_day, nod, off) {
        Some(x) => x,
        None => return,
    };
    let local = ins::join(from_day, nod) + off as i128 * ins::NS;
    let expect_local = crate::refmodel::fields::set_field(local, 3, n as i64);
    if local < ins::MIN_INSTANT + 2 * ins::DAY || local > ins::MAX_INSTANT - 2 * ins::DAY {
        return;
    }
    acc.transitions += 1;
    acc.states += 1;
    let got = call_res(|| x.set_day_of_year(n).map(|v| (crate::real::dt_instant(&v), v.day_of_year(), v.weekday() as u32)));
    let case = || json!({"from_day": from_day, "nod": nod.to_string(), "off": off, "n": n, "kind": "set_doy_offset"});
    match (expect_local, &got) {
        (Some(l2), Out::Val((inst, doy, wd))) => {
            let f = ins::decompose(l2);
            if *inst != Some(l2 - off as i128 * ins::NS) || *doy != n || *wd != f.wd {
                acc.violation("DateTime::set_day_of_year", "set-doy-with-offset", case(), format!("local day of year {} weekday {} instant {}", n, f.wd, l2 - off as i128 * ins::NS), format!("instant {:?} day_of_year {} weekday {}", inst, doy, wd));
            }
            acc.branch("set-doy-offset-lands");
        }
        (None, Out::Err(_)) => acc.branch("set-doy-refused"),
        (e, other) => acc.violation("DateTime::set_day_of_year", "set-doy-with-offset-refusal", case(), format!("{:?}", e.is_some()), other.show()),
    }
}

/// the getters and the derived format fields of a day, asked right after the same questions about
/// another day on the same thread: the answers must not depend on what was asked before
fn case_after(pred: i64, day: i64, use_dt: bool, acc: &mut Acc) {
    if !(cal::MIN_DAY..=cal::MAX_DAY).contains(&pred) {
        return;
    }
    let ask = |d: i64| -> Out<(u8, u32, String)> {
        let ts = (d - cal::DAYS_TO_1970) * 86_400;
        if use_dt {
            call(|| {
                let v = DateTime::from_timestamp(ts);
                (v.weekday(), v.day_of_year(), v.format("w q e D"))
            })
        } else {
            call(|| {
                let v = Date::from_timestamp(ts);
                (v.weekday(), v.day_of_year(), v.format("w q e D"))
            })
        }
    };
    acc.transitions += 2;
    acc.states += 1;
    let _ = ask(pred);
    let got = ask(day);
    let w = Walker::at(day);
    let want = (w.wd as u8, w.doy, format!("{} {} {} {}", cal::iso_week(day), (w.m - 1) / 3 + 1, w.wd + 1, w.doy));
    if got == Out::Val(want.clone()) {
        acc.branch("asked-after-another-day");
    } else {
        acc.violation(if use_dt { "DateTime getters" } else { "Date getters" }, "answer-depends-on-the-previous-call", json!({"kind": "after", "day": day, "pred": pred, "datetime": use_dt}), format!("{:?}", want), got.show());
    }
}

/// purity probe: a fixed anchor day (2022-05-02, a Monday, day 122, week 18, quarter 2) is asked the
/// same questions after every day of a sweep; what the sweep's calls leave behind must not change the answer
const ANCHOR_DAY: i64 = 738_276;
fn anchor_probe(pred: i64, use_dt: bool, acc: &mut Acc) {
    let ts = (ANCHOR_DAY - cal::DAYS_TO_1970) * 86_400;
    let got = if use_dt {
        call(|| {
            let v = DateTime::from_timestamp(ts);
            (v.weekday(), v.day_of_year())
        })
    } else {
        call(|| {
            let v = Date::from_timestamp(ts);
            (v.weekday(), v.day_of_year())
        })
    };
    acc.transitions += 1;
    if got != Out::Val((1, 122)) {
        acc.violation(if use_dt { "DateTime getters" } else { "Date getters" }, "answer-depends-on-the-previous-call", json!({"kind": "after", "day": ANCHOR_DAY, "pred": pred, "datetime": use_dt}), "(1, 122)".into(), got.show());
    }
}

fn sweep_getters(rep: &mut Report, name: &str, lo: i64, hi: i64, use_dt: bool) {
    rep.sweep_chunked(name, (hi - lo + 1) as u64, "weekday()/day_of_year() against the walker", |a, b, acc| {
        let mut w = Walker::at(lo + a as i64);
        for i in a..b {
            case_getters(&w, use_dt, acc);
            anchor_probe(w.day, use_dt, acc);
            if i % 300_000_007 == 0 {
                acc.sample(json!({"op": "weekday/day_of_year", "day": w.day, "weekday": w.wd, "doy": w.doy}));
            }
            w.step();
        }
    });
}

fn sweep_format(rep: &mut Report, name: &str, lo: i64, hi: i64, use_dt: bool, all_e: bool) {
    rep.sweep_chunked(name, (hi - lo + 1) as u64, "format(\"w q e D\") against ISO week / quarter / weekday / day-of-year", |a, b, acc| {
        let mut w = Walker::at(lo + a as i64);
        for i in a..b {
            case_format(&w, use_dt, all_e, acc);
            if i % 300_000_007 == 0 {
                acc.sample(json!({"op": "format(w q e D)", "day": w.day, "date": [w.disp_year(), w.m, w.d], "expect": format!("{} {} {} {}", cal::iso_week(w.day), (w.m - 1) / 3 + 1, w.wd + 1, w.doy)}));
            }
            w.step();
        }
    });
}

fn sweep_set_doy(rep: &mut Report, name: &str, years: &[(i64, i64)], use_dt: bool) {
    let mut offs = vec![];
    let mut total = 0u64;
    for (lo, hi) in years {
        offs.push(total);
        total += (hi - lo + 1) as u64;
    }
    let per_year = 3 * 368u64;
    rep.sweep(name, total * per_year, "astronomical year x 3 start positions x day-of-year 0..=367", |i, acc| {
        let yi = i / per_year;
        let r = i % per_year;
        let k = match offs.binary_search(&yi) {
            Ok(k) => k,
            Err(k) => k - 1,
        };
        let a = years[k].0 + (yi - offs[k]) as i64;
        let pos = r / 368;
        let n = (r % 368) as u32;
        let from = match pos {
            0 => cal::days_from_civil(a, 1, 1),
            1 => cal::days_from_civil(a, 3, 1),
            _ => cal::days_from_civil(a, 12, 31),
        };
        if !(cal::MIN_DAY..=cal::MAX_DAY).contains(&from) {
            acc.branch("set-doy-start-outside-range");
            return;
        }
        case_set_doy(from, n, use_dt, acc);
        if i % 1_000_000_007 == 0 {
            acc.sample(json!({"op": "set_day_of_year", "from_day": from, "n": n}));
        }
    });
}

pub fn run(ctx: &Ctx) -> i32 {
    let mut rep = Report::new(ctx);
    rep.rule = "states = distinct days (getters) and (year, start, n) tuples (setter); transitions = real getter / format / setter calls compared with walker weekday (+1 mod 7 anchored at 1970-01-01 = Thursday), 1-based day of year, ISO-8601 week from its definition, quarter; non-trivial = days that are not a Sunday 1 January plus refused set_day_of_year calls".into();
    rep.assumptions = vec![
        "ISO week reference computed from (weekday, day of year, weeks-in-year), not from the Tondering formula used by the subject".into(),
        "a day number is reached through from_timestamp (C03)".into(),
    ];
    rep.require(&["getters-bc", "getters-ad", "week1-in-december", "week52/53-in-january", "week53", "e-widths", "set-doy-lands", "set-doy-refused", "set-doy-offset-lands"]);
    let checked = PROFILE == "checked";
    let full = (cal::MIN_DAY, cal::MAX_DAY);
    if ctx.thorough || checked {
        sweep_getters(&mut rep, "getters:all-2^32:Date", full.0, full.1, false);
    }
    if ctx.thorough {
        sweep_getters(&mut rep, "getters:all-2^32:DateTime", full.0, full.1, true);
    }
    for (k, (lo, hi)) in ab::windows().into_iter().enumerate() {
        if !(ctx.thorough || checked) {
            sweep_getters(&mut rep, &format!("getters:window{}:Date", k), lo, hi, false);
        }
        if !ctx.thorough {
            sweep_getters(&mut rep, &format!("getters:window{}:DateTime", k), lo, hi, true);
        }
        sweep_format(&mut rep, &format!("format:window{}:Date", k), lo, hi, false, true);
        sweep_format(&mut rep, &format!("format:window{}:DateTime", k), lo, hi, true, checked);
    }
    let hdays: Vec<i64> = ab::days_b().into_iter().chain([0, 1, 730_179, 719_162, 719_468, 146_097, -146_097]).collect();
    let dist = ab::dist_b();
    let (nh, ndist) = (hdays.len() as u64, dist.len() as u64);
    rep.sweep("history independence: landmark days right after a day at a DIST_B distance x {Date, DateTime}", nh * ndist * 2, "weekday(), day_of_year(), format(\"w q e D\")", |i, acc| {
        let d = hdays[(i / 2 % nh) as usize];
        case_after(d + dist[(i / (2 * nh)) as usize], d, i % 2 == 1, acc);
    });
    let db = ab::days_b();
    rep.sweep("format:DAYS_B", db.len() as u64 * 2, "landmark days, Date and DateTime", |i, acc| {
        let w = Walker::at(db[(i / 2) as usize]);
        case_format(&w, i % 2 == 1, true, acc);
    });
    if ctx.thorough && checked {
        sweep_format(&mut rep, "format:all-2^32:Date", full.0, full.1, false, false);
    } else if ctx.thorough {
        // fast profile: a dense lattice (every 13th day, phase from the seed) instead of a second full pass
        let phase = (ctx.seed % 13) as i64;
        let n = ((full.1 - full.0) / 13) as u64;
        rep.sweep("format:lattice-13:Date", n, "every 13th day of the full range", move |i, acc| {
            let w = Walker::at(full.0 + phase + 13 * i as i64);
            case_format(&w, false, false, acc);
        });
    }
    // setter
    if ctx.thorough && checked {
        // all astronomical years whose Jan 1 .. Dec 31 intersect the range
        sweep_set_doy(&mut rep, "set_doy:all-years:Date", &[(-5_879_610, 5_879_611)], false);
        sweep_set_doy(&mut rep, "set_doy:landmark-years:DateTime", &landmark_astro_years(), true);
    } else {
        sweep_set_doy(&mut rep, "set_doy:landmark-years:Date", &landmark_astro_years(), false);
        sweep_set_doy(&mut rep, "set_doy:landmark-years:DateTime", &landmark_astro_years(), true);
    }
    // the setter on DateTimes whose local date differs from the UTC date
    let ddays = ab::days_b_small();
    let combos: [(u64, i32); 6] = [(82_800_000_000_000, 7_200), (1_800_000_000_000, -3_600), (43_200_000_000_000, 43_200), (43_199_999_999_999, -43_200), (86_399_999_999_999, 1), (0, -86_399)];
    let ns: Vec<u32> = vec![0, 1, 2, 59, 60, 61, 100, 364, 365, 366, 367];
    let (nd, nc, nn) = (ddays.len() as u64, combos.len() as u64, ns.len() as u64);
    rep.sweep("set_doy:DateTime with offsets (local date differs from UTC date)", nd * nc * nn, "DAYS_B' x 6 (time, offset) combinations x day-of-year menu", |i, acc| {
        let (nod, off) = combos[(i / nn % nc) as usize];
        case_set_doy_offset(ddays[(i / (nn * nc)) as usize], nod, off, ns[(i % nn) as usize], acc);
    });
    rep.finish()
}

fn landmark_astro_years() -> Vec<(i64, i64)> {
    let mut yrs: Vec<(i64, i64)> = ab::landmark_years().iter().map(|&y| cal::astro(y).unwrap()).map(|a| (a - 2, a + 2)).collect();
    yrs.extend([(-8, 8), (1894, 1907), (1994, 2007), (2014, 2027), (2094, 2103)]);
    yrs.retain(|(lo, hi)| *lo >= -5_879_610 && *hi <= 5_879_611);
    yrs.push((-5_879_610, -5_879_606));
    yrs.push((5_879_607, 5_879_611));
    yrs
}

pub fn replay(_op: &str, case: &Value, acc: &mut Acc) -> bool {
    let use_dt = case["datetime"].as_bool().unwrap_or(false);
    match case["kind"].as_str() {
        Some("after") => case_after(case["pred"].as_i64().unwrap(), case["day"].as_i64().unwrap(), use_dt, acc),
        Some("getters") => case_getters(&Walker::at(case["day"].as_i64().unwrap()), use_dt, acc),
        Some("format") => case_format(&Walker::at(case["day"].as_i64().unwrap()), use_dt, case["all_e"].as_bool().unwrap_or(false), acc),
        Some("set_doy_offset") => case_set_doy_offset(case["from_day"].as_i64().unwrap(), case["nod"].as_str().unwrap().parse().unwrap(), case["off"].as_i64().unwrap() as i32, case["n"].as_u64().unwrap() as u32, acc),
        Some("set_doy") => case_set_doy(case["from_day"].as_i64().unwrap(), case["n"].as_u64().unwrap() as u32, use_dt, acc),
        _ => return false,
    }
    true
}
