//! C20 — default text forms (Display, FromStr, serde) name the value they came from (E1).
use crate::alphabets as ab;
use crate::engine::{call, Acc, Ctx, Out, Report, PROFILE};
use crate::props::c14::{count_strings, nth_string, TEXT_SIGMA};
use crate::real::{date_day, dt_from_off, dt_instant, off_secs, time_from};
use crate::refmodel::calendar as cal;
use crate::refmodel::format::{render, Kind};
use crate::refmodel::instant as ins;
use astrolabe::{Date, DateTime, DateUtilities, Offset, OffsetUtilities, Time};
use serde_json::{json, Value};
use std::str::FromStr;

fn case_date(day: i64, acc: &mut Acc) {
    case_date_inner(day, acc);
    if (day as u64).wrapping_mul(0x9E37_79B9) % 64 == 0 {
        crate::props::anchor::text(acc, "text forms (purity probe)", &|| json!({"kind": "date", "day": day}));
    }
}

fn case_date_inner(day: i64, acc: &mut Acc) {
    acc.transitions += 4;
    acc.states += 1;
    let d = Date::from_timestamp((day - cal::DAYS_TO_1970) * 86_400);
    let local = ins::join(day, 0);
    let want_disp = render(Kind::Date, "yyyy/MM/dd", local, 0).unwrap();
    let want_text = render(Kind::Date, "yyyy-MM-dd", local, 0).unwrap();
    let got = call(|| {
        let disp = d.to_string();
        let from = Date::from_str(&want_text).map(|x| date_day(&x)).map_err(|e| e.to_string());
        let ser = serde_json::to_string(&d).map_err(|e| e.to_string());
        let de = ser.clone().and_then(|s| serde_json::from_str::<Date>(&s).map(|x| date_day(&x)).map_err(|e| e.to_string()));
        (disp, from, ser, de)
    });
    let case = || json!({"kind": "date", "day": day});
    let cls = if day < 0 { "bc" } else if cal::ymd(day).0 > 9999 { "year>9999" } else { "ad" };
    match &got {
        Out::Val((disp, from, ser, de)) => {
            if *disp != want_disp {
                acc.violation("Date::to_string", &format!("display-{}", cls), case(), want_disp, disp.clone());
            }
            if *from != Ok(day) {
                acc.violation("Date::from_str", &format!("fromstr-{}", cls), case(), format!("Ok(day {}) from {:?}", day, want_text), format!("{:?}", from));
            }
            if *ser != Ok(format!("\"{}\"", want_text)) || *de != Ok(day) {
                acc.violation("Date serde", &format!("serde-roundtrip-{}", cls), case(), format!("\"{}\" -> day {}", want_text, day), format!("{:?} -> {:?}", ser, de));
            }
            acc.branch(if day < 0 { "date-bc" } else { "date-ad" });
            if cls != "ad" {
                acc.nontrivial += 1;
            }
        }
        other => acc.violation("Date text forms", "panic", case(), "strings".into(), other.show()),
    }
}

fn case_time(nanos: u64, off: i32, acc: &mut Acc) {
    let t = time_from(nanos, off).unwrap();
    acc.transitions += 4;
    acc.states += 1;
    let local = 1000 * ins::DAY + (nanos as i128 + off as i128 * ins::NS).rem_euclid(ins::DAY);
    let want = render(Kind::Time, "HH:mm:ss", local, off).unwrap();
    let local_secs = (local - 1000 * ins::DAY) / ins::NS;
    let got = call(|| {
        let disp = t.to_string();
        let from = Time::from_str(&want).map(|x| (x.as_nanos(), off_secs(x.get_offset()))).map_err(|e| e.to_string());
        let ser = serde_json::to_string(&t).map_err(|e| e.to_string());
        let de = ser.clone().and_then(|s| serde_json::from_str::<Time>(&s).map(|x| (x.to_string(), x.as_nanos())).map_err(|e| e.to_string()));
        (disp, from, ser, de)
    });
    let case = || json!({"kind": "time", "nanos": nanos.to_string(), "off": off});
    match &got {
        Out::Val((disp, from, ser, de)) => {
            if *disp != want {
                acc.violation("Time::to_string", if off == 0 { "display-utc" } else { "display-with-offset" }, case(), want.clone(), disp.clone());
            }
            if *from != Ok((local_secs as u64 * 1_000_000_000, 0)) {
                acc.violation("Time::from_str", "fromstr", case(), format!("Ok({} s)", local_secs), format!("{:?}", from));
            }
            if *ser != Ok(format!("\"{}\"", want)) || *de != Ok((want.clone(), local_secs as u64 * 1_000_000_000)) {
                acc.violation("Time serde", if off == 0 { "serde-roundtrip-utc" } else { "serde-roundtrip-with-offset" }, case(), format!("\"{}\" -> shows {}", want, want), format!("{:?} -> {:?}", ser, de));
            }
            acc.branch("time");
            if off != 0 {
                acc.nontrivial += 1;
            }
        }
        other => acc.violation("Time text forms", "panic", case(), "strings".into(), other.show()),
    }
}

fn case_dt(day: i64, nod: u64, off: i32, acc: &mut Acc) {
    case_dt_inner(day, nod, off, acc);
    let h = crate::props::anchor::hash(&[day as u64, nod, off as u64]);
    if h % 16 == 0 {
        crate::props::anchor::text(acc, "text forms (purity probe)", &|| json!({"kind": "dt", "day": day, "nod": nod.to_string(), "off": off}));
    }
}

fn case_dt_inner(day: i64, nod: u64, off: i32, acc: &mut Acc) {
    let x = match dt_from_off(day, nod, off) {
        Some(x) => x,
        None => return,
    };
    let local = ins::join(day, nod) + off as i128 * ins::NS;
    let ly = ins::decompose(local).year;
    let in_rfc = (1..=9999).contains(&ly) && off % 60 == 0;
    acc.transitions += 4;
    acc.states += 1;
    let want_disp = render(Kind::DateTime, "yyyy/MM/dd HH:mm:ss", local, off).unwrap();
    let want_rfc = render(Kind::DateTime, "yyyy-MM-dd'T'HH:mm:ssXXX", local, off).unwrap();
    let inst = ins::join(day, nod);
    let inst_s = inst - inst.rem_euclid(ins::NS);
    let got = call(|| {
        let disp = x.to_string();
        if !in_rfc {
            return (disp, Ok((None, 0)), Ok(String::new()), Ok((None, 0)));
        }
        let from = DateTime::from_str(&want_rfc).map(|v| (dt_instant(&v), off_secs(v.get_offset()))).map_err(|e| e.to_string());
        // the same text with the nanoseconds written out: FromStr reads RFC 3339, fraction included
        let with_fraction = format!("{}.{:09}{}", &want_rfc[..19], inst.rem_euclid(ins::NS), &want_rfc[19..]);
        let from_fraction = DateTime::from_str(&with_fraction).map(|v| (dt_instant(&v), off_secs(v.get_offset()))).map_err(|e| e.to_string());
        let from = if from_fraction != Ok((Some(inst), off)) { Err(format!("with the fraction written out: from_str({:?}) = {:?}, expected instant {} offset {}", with_fraction, from_fraction, inst, off)) } else { from };
        let ser = serde_json::to_string(&x).map_err(|e| e.to_string());
        let de = ser.clone().and_then(|s| serde_json::from_str::<DateTime>(&s).map(|v| (dt_instant(&v), off_secs(v.get_offset()))).map_err(|e| e.to_string()));
        (disp, from, ser, de)
    });
    let case = || json!({"kind": "dt", "day": day, "nod": nod.to_string(), "off": off});
    match &got {
        Out::Val((disp, from, ser, de)) => {
            if *disp != want_disp {
                acc.violation("DateTime::to_string", if off == 0 { "display-utc" } else { "display-with-offset" }, case(), want_disp, disp.clone());
            }
            if in_rfc {
                let w = Ok((Some(inst_s), off));
                if *from != w {
                    acc.violation("DateTime::from_str", "fromstr", case(), format!("{:?} from {}", w, want_rfc), format!("{:?}", from));
                }
                if *ser != Ok(format!("\"{}\"", want_rfc)) || *de != w {
                    acc.violation("DateTime serde", if off == 0 { "serde-roundtrip-utc" } else { "serde-roundtrip-with-offset" }, case(), format!("\"{}\" -> {:?}", want_rfc, w), format!("{:?} -> {:?}", ser, de));
                }
                acc.branch("datetime-serde");
                if off != 0 {
                    acc.nontrivial += 1;
                }
            }
            acc.branch("datetime-display");
        }
        other => acc.violation("DateTime text forms", "panic", case(), "strings".into(), other.show()),
    }
}

/// a text whose year numeral is outside the representable years must be refused by FromStr and
/// Deserialize - never read as some other year (numerals that wrap a narrower integer back into range)
fn case_year_numeral(numeral: &str, which: u8, acc: &mut Acc) {
    use std::str::FromStr;
    acc.transitions += 1;
    acc.states += 1;
    let text = match which {
        0 | 1 => format!("{}-05-02", numeral),
        _ => format!("{}-05-02T12:32:01Z", numeral),
    };
    let got: Out<bool> = call(|| match which {
        0 => Date::from_str(&text).is_ok(),
        1 => serde_json::from_str::<Date>(&serde_json::to_string(&text).unwrap()).is_ok(),
        2 => DateTime::from_str(&text).is_ok(),
        _ => serde_json::from_str::<DateTime>(&serde_json::to_string(&text).unwrap()).is_ok(),
    });
    match got {
        Out::Val(false) => acc.branch("out-of-range-year-refused"),
        other => acc.violation(["Date::from_str", "Date deserialize", "DateTime::from_str", "DateTime deserialize"][which as usize], "out-of-range-year-numeral-accepted-or-panic", json!({"kind": "year_numeral", "numeral": numeral, "which": which}), "Err".into(), other.show()),
    }
}

/// malformed side: a JSON document must give a serde error, never a panic; Ok only for valid values
fn case_malformed(ty: u8, doc: &str, acc: &mut Acc) {
    acc.transitions += 1;
    acc.states += 1;
    let got: Out<Option<bool>> = call(|| match ty {
        0 => serde_json::from_str::<Date>(doc).ok().map(|d| {
            let (y, m, dd) = d.as_ymd();
            cal::valid_day(y as i64, m, dd).is_some()
        }),
        1 => serde_json::from_str::<Time>(doc).ok().map(|t| t.as_nanos() < ab::DAY_NS),
        _ => serde_json::from_str::<DateTime>(doc).ok().map(|x| {
            let (y, m, d, h, mi, s) = x.as_ymdhms();
            cal::valid_day(y as i64, m, d).is_some() && h < 24 && mi < 60 && s < 60 && matches!(x.get_offset(), Offset::Fixed(o) if o.abs() < 86_400)
        }),
    });
    match &got {
        Out::Val(None) => {
            acc.branch("malformed-rejected");
            acc.nontrivial += 1;
        }
        Out::Val(Some(true)) => acc.branch("malformed-family-member-valid"),
        other => acc.violation(["Date", "Time", "DateTime"][ty as usize], "deserialize-panic-or-invalid", json!({"kind": "malformed", "ty": ty, "doc": doc}), "serde error or a valid value".into(), other.show()),
    }
}

pub fn run(ctx: &Ctx) -> i32 {
    let mut rep = Report::new(ctx);
    rep.rule = "states = distinct values / JSON documents; transitions = to_string, from_str, serde_json::to_string, serde_json::from_str calls; Display equals the reference rendering of yyyy/MM/dd, HH:mm:ss, yyyy/MM/dd HH:mm:ss in the value's offset; de(ser(v)) gives the same Date, a Time showing the same HH:mm:ss, the same DateTime instant to the second and offset; malformed documents give a serde error; non-trivial = BC / 5+-digit years, values with offsets, rejected documents".into();
    rep.assumptions = vec!["serde is exercised through serde_json (string (de)serializer); DateTime serde / FromStr is judged for local years 0001..=9999 and whole-minute offsets as the statement says".into()];
    rep.require(&["date-bc", "date-ad", "time", "datetime-serde", "datetime-display", "malformed-rejected", "out-of-range-year-refused"]);
    let checked = PROFILE == "checked";
    if ctx.thorough && checked {
        rep.sweep("Date: all 2^32 days", 1 << 32, "Display, FromStr, serde round trip", |i, acc| case_date(cal::MIN_DAY + i as i64, acc));
    } else {
        let mut days = ab::window_days();
        days.extend(ab::days_b());
        let step = if ctx.thorough { 211 } else { 12_007 };
        let mut d = cal::MIN_DAY + (ctx.seed % step as u64) as i64;
        while d <= cal::MAX_DAY {
            days.push(d);
            d += step;
        }
        days.sort();
        days.dedup();
        rep.sweep("Date: windows + DAYS_B + day lattice", days.len() as u64, "Display, FromStr, serde round trip", |i, acc| {
            case_date(days[i as usize], acc);
            if i % 100_003 == 0 {
                acc.sample(json!({"op": "Date text forms", "date": cal::ymd(days[i as usize])}));
            }
        });
    }
    let ob = ab::offs_b();
    let nob = ob.len() as u64;
    rep.sweep("Time: all 86 400 seconds x OFFS_B", 86_400 * nob, "", |i, acc| case_time((i / nob) * 1_000_000_000 + (i % 2) * 999_999_999, ob[(i % nob) as usize], acc));
    let d1 = cal::days_from_civil(1, 1, 1);
    let d9999 = cal::days_from_civil(9999, 12, 31);
    let step: u64 = if ctx.thorough && checked { 1 } else if ctx.thorough { 5 } else { 23 };
    let nd = ((d9999 - d1) as u64) / step;
    let dtoffs = [0, 19_800, -25_200];
    rep.sweep("DateTime: days of years 1..=9999 x {00:00:00, 23:59:59.9} x {Z, +05:30, -07:00}", nd * 6, "every day (thorough) / every 23rd day", move |i, acc| {
        let day = d1 + 1 + ((i / 6) * step) as i64;
        case_dt(day, if i % 2 == 0 { 0 } else { 86_399_900_000_000 }, dtoffs[(i / 2 % 3) as usize], acc);
    });
    let mut inst = vec![];
    for d in ab::days_b().into_iter().step_by(2) {
        if d > cal::MIN_DAY + 2 && d < cal::MAX_DAY - 2 {
            inst.push((d, 45_296_123_456_789u64));
            inst.push((d, 86_399_999_999_999u64));
        }
    }
    let ni = inst.len() as u64;
    rep.sweep("DateTime: boundary instants (all eras) x all whole-minute offsets", ni * 2_879, "Display for every value; serde/FromStr where local year is 1..=9999", |i, acc| {
        let (d, n) = inst[(i / 2_879) as usize];
        case_dt(d, n, (i % 2_879) as i32 * 60 - 86_340, acc);
    });
    rep.sweep("DateTime: boundary instants x OFFS_B (offsets with seconds: Display only)", ni * nob, "", |i, acc| {
        let (d, n) = inst[(i / nob) as usize];
        case_dt(d, n, ob[(i % nob) as usize], acc);
    });
    // year numerals outside the range, among them those that come back into range when squeezed through 32 or 64 bits
    let mut numerals: Vec<String> = vec![];
    for y in [1i128, 4, 2022, 2024, 9999, -1, -44, 5_879_611, -5_879_611] {
        for k in [1i128, 2, 3, -1, -2] {
            numerals.push((y + k * (1i128 << 32)).to_string());
            numerals.push((y + k * (1i128 << 64)).to_string());
        }
        numerals.push((y + (1i128 << 31)).to_string());
        numerals.push((y + (1i128 << 63)).to_string());
        numerals.push((y + (1i128 << 16) * 100_000).to_string());
    }
    for n in ["5879612", "-5879612", "2147483647", "2147483648", "-2147483648", "-2147483649", "4294967295", "4294967296", "9223372036854775807", "9223372036854775808", "-9223372036854775808", "18446744073709551615", "18446744073709551616", "99999999999999999999", "340282366920938463463374607431768211456"] {
        numerals.push(n.to_string());
    }
    let nn = numerals.len() as u64;
    rep.sweep("year numerals outside the range x {Date::from_str, Date deserialize, DateTime::from_str, DateTime deserialize}", nn * 4, "valid years shifted by multiples of 2^32 and 2^64, by 2^31 and 2^63, and the integer limits", |i, acc| case_year_numeral(&numerals[(i / 4) as usize], (i % 4) as u8, acc));
    // malformed documents
    let ns = count_strings(16, 4);
    rep.sweep("malformed: every string of length <= 4 over TEXT_SIGMA as a JSON string x 3 types", ns * 3, "", |i, acc| {
        let s = nth_string(&TEXT_SIGMA, 4, i / 3);
        case_malformed((i % 3) as u8, &serde_json::to_string(&s).unwrap(), acc);
    });
    let templates = ["2022-05-02", "15:30:20", "2022-05-02T15:30:20Z", "2022-05-02T15:30:20.5+05:30"];
    for t in templates {
        let chars: Vec<char> = t.chars().collect();
        let n = chars.len() as u64;
        rep.sweep(&format!("malformed: template {:?}: every truncation and every single/double substitution x 3 types", t), ((n + 1) + n * 16 + n * n * 256) * 3, "", |i, acc| {
            let ty = (i % 3) as u8;
            let i = i / 3;
            let s: String = if i <= n {
                chars[..i as usize].iter().collect()
            } else if i < n + 1 + n * 16 {
                let j = i - n - 1;
                let mut c: Vec<String> = chars.iter().map(|c| c.to_string()).collect();
                c[(j / 16) as usize] = TEXT_SIGMA[(j % 16) as usize].to_string();
                c.concat()
            } else {
                let j = i - n - 1 - n * 16;
                let mut c: Vec<String> = chars.iter().map(|c| c.to_string()).collect();
                c[(j / 256 / n) as usize] = TEXT_SIGMA[(j % 16) as usize].to_string();
                c[(j / 256 % n) as usize] = TEXT_SIGMA[(j / 16 % 16) as usize].to_string();
                c.concat()
            };
            case_malformed(ty, &serde_json::to_string(&s).unwrap(), acc);
        });
    }
    // a valid RFC 3339 prefix + every tail of length <= 5 (offset parts of every byte length) through Deserialize
    for prefix in ["2022-05-02T15:30:20", "2022-05-02T15:30:20.25"] {
        let nt = count_strings(16, 5);
        rep.sweep(&format!("malformed: {:?} + every tail of length <= 5 over TEXT_SIGMA through Deserialize<DateTime>", prefix), nt, "", |i, acc| {
            let s = format!("{}{}", prefix, nth_string(&TEXT_SIGMA, 5, i));
            case_malformed(2, &serde_json::to_string(&s).unwrap(), acc);
        });
    }
    let docs = ["null", "0", "1.5", "true", "[]", "{}", "[\"2022-05-02\"]", "{\"days\":1}", "\"\"", "", "\"2022-05-02", "-1", "1e400"];
    rep.sweep("malformed: non-string JSON documents x 3 types", docs.len() as u64 * 3, "", |i, acc| case_malformed((i % 3) as u8, docs[(i / 3) as usize], acc));
    rep.finish()
}

pub fn replay(_op: &str, case: &Value, acc: &mut Acc) -> bool {
    match case["kind"].as_str() {
        Some("date") => case_date(case["day"].as_i64().unwrap(), acc),
        Some("time") => case_time(case["nanos"].as_str().unwrap().parse().unwrap(), case["off"].as_i64().unwrap() as i32, acc),
        Some("dt") => case_dt(case["day"].as_i64().unwrap(), case["nod"].as_str().unwrap().parse().unwrap(), case["off"].as_i64().unwrap() as i32, acc),
        Some("year_numeral") => case_year_numeral(case["numeral"].as_str().unwrap(), case["which"].as_u64().unwrap() as u8, acc),
        Some("malformed") => case_malformed(case["ty"].as_u64().unwrap() as u8, case["doc"].as_str().unwrap(), acc),
        _ => return false,
    }
    true
}
