//! C16 — a cron expression denotes exactly the documented value sets per field
//! (E1 over the documented grammar and all single-edit mutations; clock pinned through the hook).
use crate::engine::{call, Acc, Ctx, Out, Report};
use crate::refmodel::calendar as cal;
use crate::refmodel::cron::{self as rc, Sets, Verdict};
use astrolabe::errors::AstrolabeError;
use astrolabe::{CronSchedule, DateUtilities};
use serde_json::{json, Value};
use std::collections::BTreeSet;
use std::time::Duration;

pub fn pin_clock(unix_secs: i64) {
    astrolabe::verif_hooks::set_now(Some(Duration::from_secs(unix_secs as u64)));
}

fn unix_of(y: i64, m: u32, d: u32, h: i64, mi: i64, s: i64) -> i64 {
    (cal::days_from_civil(y, m, d) - cal::DAYS_TO_1970) * 86_400 + h * 3600 + mi * 60 + s
}

/// parse with the real parser: Ok(schedule) / Err(is InvalidFormat) / panic
fn real_parse(expr: &str) -> Out<Result<CronSchedule, bool>> {
    call(|| CronSchedule::parse(expr).map_err(|e| matches!(e, AstrolabeError::InvalidFormat(_))))
}

/// The five sets as shown by the Debug rendering (None if the rendering has another shape).
#[allow(dead_code)]
fn debug_sets(s: &CronSchedule) -> Option<Sets> {
    let text = format!("{:?}", s);
    let mut out: Sets = Default::default();
    for (k, name) in ["minutes", "hours", "days_of_month", "months", "days_of_week"].iter().enumerate() {
        let key = format!("{}: {{", name);
        let p = text.find(&key)? + key.len();
        let end = text[p..].find('}')? + p;
        for tok in text[p..end].split(',') {
            let tok = tok.trim();
            if !tok.is_empty() {
                out[k].insert(tok.parse().ok()?);
            }
        }
    }
    Some(out)
}

/// Drain the iterator over a window that contains every value of field k, project on the field.
fn observe_field(schedule: &CronSchedule, k: usize) -> Out<BTreeSet<u8>> {
    observe_field_with(schedule, k, false)
}

/// the same projection, but with the clock moved after every call to 30 s before the next unit of
/// the field (next minute / hour / day): the denoted set cannot depend on how the clock advances
fn observe_field_moving(schedule: &CronSchedule, k: usize) -> Out<BTreeSet<u8>> {
    observe_field_with(schedule, k, true)
}

fn observe_field_with(schedule: &CronSchedule, k: usize, moving: bool) -> Out<BTreeSet<u8>> {
    let (start, end) = match k {
        0 => (unix_of(2021, 12, 31, 23, 59, 30), unix_of(2022, 1, 1, 1, 0, 0)),
        1 => (unix_of(2021, 12, 31, 23, 59, 30), unix_of(2022, 1, 2, 0, 0, 0)),
        2 => (unix_of(2021, 12, 31, 23, 59, 30), unix_of(2022, 2, 1, 0, 0, 0)),
        3 => (unix_of(2021, 12, 31, 23, 59, 30), unix_of(2023, 1, 1, 0, 0, 0)),
        _ => (unix_of(2022, 1, 1, 23, 59, 30), unix_of(2022, 1, 9, 0, 0, 0)),
    };
    pin_clock(start);
    let mut it = schedule.clone();
    call(move || {
        let mut set = BTreeSet::new();
        for _ in 0..400 {
            let ts = match it.next() {
                Some(x) => x.timestamp(),
                None => break,
            };
            if ts >= end {
                break;
            }
            if moving {
                pin_clock(ts + [60, 3_600, 86_400, 86_400, 86_400][k] - 30);
            }
            let day = ts.div_euclid(86_400) + cal::DAYS_TO_1970;
            let sod = ts.rem_euclid(86_400);
            let (_, m, d) = cal::civil_from_days(day);
            set.insert(match k {
                0 => (sod / 60 % 60) as u8,
                1 => (sod / 3600) as u8,
                2 => d as u8,
                3 => m as u8,
                _ => cal::weekday(day) as u8,
            });
        }
        set
    })
}

fn embed(k: usize, field: &str) -> String {
    match k {
        0 => format!("{} * * * *", field),
        1 => format!("0 {} * * *", field),
        2 => format!("0 0 {} * *", field),
        3 => format!("0 0 1 {} *", field),
        _ => format!("0 0 * * {}", field),
    }
}

/// one field string from the documented grammar: accepted, and the iterator projects exactly the denoted set
fn case_grammar(k: usize, field: &str, acc: &mut Acc) {
    let expr = embed(k, field);
    let want = match rc::parse(&expr) {
        Verdict::Accept(s) => s,
        other => {
            acc.violation("harness", "grammar-generator-produced-non-grammar", json!({"kind": "grammar", "field": k, "text": field}), "Accept".into(), format!("{:?}", other));
            return;
        }
    };
    acc.transitions += 1;
    acc.states += 1;
    let case = || json!({"kind": "grammar", "field": k, "text": field});
    let fname = ["minute", "hour", "day-of-month", "month", "day-of-week"][k];
    match real_parse(&expr) {
        Out::Val(Ok(s)) => {
            let got = observe_field(&s, k);
            acc.transitions += want[k].len() as u64 + 1;
            if got != Out::Val(want[k].clone()) {
                let cls = if field.contains('7') && k == 4 { "weekday-7" } else if field.contains('/') { "step" } else if field.contains('-') { "range" } else if field.contains(',') { "list" } else { "single" };
                acc.violation("CronSchedule iterator", &format!("denoted-set-{}-{}", fname, cls), case(), format!("{:?}", want[k]), got.show());
            }
            // the day-of-week field once more with every other field free and the iterator consumed
            // through nth() (which skip and step_by are built on): 14 jumps of 1 000 matching minutes
            if k == 4 {
                acc.transitions += 14;
                let via_nth = match real_parse(&format!("* * * * {}", field)) {
                    Out::Val(Ok(mut it)) => {
                        pin_clock(unix_of(2022, 1, 1, 23, 59, 30));
                        call(move || {
                            let mut set = BTreeSet::new();
                            for _ in 0..14 {
                                match it.nth(1_000) {
                                    Some(x) => {
                                        set.insert(cal::weekday(x.timestamp().div_euclid(86_400) + cal::DAYS_TO_1970) as u8);
                                    }
                                    None => break,
                                }
                            }
                            set
                        })
                    }
                    other => Out::Err(format!("{:?}", other.show())),
                };
                if via_nth != Out::Val(want[k].clone()) {
                    acc.violation("CronSchedule iterator", "denoted-set-through-nth-day-of-week", case(), format!("{:?}", want[k]), via_nth.show());
                }
            }
            let moved = observe_field_moving(&s, k);
            acc.transitions += want[k].len() as u64 + 1;
            if moved != Out::Val(want[k].clone()) {
                acc.violation("CronSchedule iterator", &format!("denoted-set-under-a-moving-clock-{}", fname), case(), format!("{:?}", want[k]), moved.show());
            }
            acc.branch("grammar-accepted");
            if want[k].len() as u8 != [60u8, 24, 31, 12, 7][k] {
                acc.nontrivial += 1;
            }
        }
        other => {
            let cls = if field.contains('7') && k == 4 { "weekday-7" } else { "other" };
            acc.violation("CronSchedule::parse", &format!("grammatical-expression-rejected-{}-{}", fname, cls), case(), "Ok".into(), format!("{:?}", other.show()))
        }
    }
}

/// an arbitrary expression (mutants): accept/reject must agree with the reference parser; an accepted
/// one must denote the reference sets (Debug rendering where it has the known shape) and yield the
/// same first minutes as the brute-force evaluator
fn case_expr(expr: &str, iterate: bool, acc: &mut Acc) {
    case_expr_inner(expr, iterate, acc);
    crate::props::anchor::cron(acc, "CronSchedule (purity probe)", &|| json!({"kind": "expr", "expr": expr, "iterate": iterate}));
}

fn case_expr_inner(expr: &str, iterate: bool, acc: &mut Acc) {
    let want = rc::parse(expr);
    acc.transitions += 1;
    acc.states += 1;
    let case = || json!({"kind": "expr", "expr": expr, "iterate": iterate});
    let got = real_parse(expr);
    // FromStr is the same reader: it must give the same verdict as parse
    {
        use std::str::FromStr;
        acc.transitions += 1;
        let via_from_str = call(|| CronSchedule::from_str(expr).is_ok());
        let via_parse = match &got {
            Out::Val(r) => Some(r.is_ok()),
            _ => None,
        };
        if let (Out::Val(a), Some(b)) = (&via_from_str, via_parse) {
            if *a != b {
                acc.violation("CronSchedule::from_str", "from_str-disagrees-with-parse", case(), format!("same verdict as parse ({})", if b { "Ok" } else { "Err" }), format!("{}", if *a { "Ok" } else { "Err" }));
            }
        } else if !matches!(via_from_str, Out::Val(_)) {
            acc.violation("CronSchedule::from_str", "panic", case(), "Ok or Err".into(), via_from_str.show());
        }
    }
    match (&want, &got) {
        (Verdict::Unjudged, Out::Val(_)) => acc.branch("unjudged-by-documentation"),
        (Verdict::Reject, Out::Val(Err(true))) => {
            acc.branch("mutant-rejected");
            acc.nontrivial += 1;
        }
        (Verdict::Accept(sets), Out::Val(Ok(s))) => {
            acc.branch("mutant-accepted");
            // what the schedule matches is judged on behaviour only (the first minutes it yields from
            // two pinned instants), never on how the parsed schedule is represented internally
            for start in [unix_of(2023, 12, 31, 23, 58, 30), unix_of(2026, 2, 28, 23, 59, 30)] {
                if !iterate && start != unix_of(2023, 12, 31, 23, 58, 30) {
                    break;
                }
                let mut after = (start + cal::DAYS_TO_1970 * 86_400).div_euclid(60);
                if rc::next_after(sets, after).is_none() {
                    acc.branch("unsatisfiable-not-iterated");
                    break;
                }
                pin_clock(start);
                let mut it = s.clone();
                for step in 0..8 {
                    acc.transitions += 1;
                    let w = match rc::next_after(sets, after) {
                        Some(w) => w,
                        None => break,
                    };
                    let g = call(|| it.next().map(|x| (x.timestamp() + cal::DAYS_TO_1970 * 86_400).div_euclid(60)));
                    if g != Out::Val(Some(w)) {
                        acc.violation("CronSchedule iterator", "mutant-yields-other-minutes", json!({"kind": "expr", "expr": expr, "iterate": true, "step": step}), format!("minute {}", w), g.show());
                        return;
                    }
                    after = w;
                }
            }
        }
        (Verdict::Reject, other) => acc.violation("CronSchedule::parse", "malformed-expression-not-rejected-with-InvalidFormat", case(), "Err(InvalidFormat)".into(), match other {
            Out::Val(Ok(s)) => format!("Ok({:?})", s),
            o => format!("{:?}", o.show()),
        }),
        (Verdict::Accept(_), other) => acc.violation("CronSchedule::parse", "grammatical-expression-rejected", case(), "Ok".into(), format!("{:?}", other.show())),
        (_, Out::Panic(p)) => acc.violation("CronSchedule::parse", "panic", case(), "Ok or Err".into(), p.clone()),
        (_, Out::Err(e)) => acc.violation("CronSchedule::parse", "panic", case(), "Ok or Err".into(), e.clone()),
    }
}

fn casings(name: &str) -> Vec<String> {
    let l = name.to_string();
    let u = name.to_uppercase();
    let t = format!("{}{}", &u[..1], &l[1..]);
    let m = format!("{}{}{}", &l[..1], &u[1..2], &l[2..]);
    vec![l, u, t, m]
}

const MONTHS: [&str; 12] = ["jan", "feb", "mar", "apr", "may", "jun", "jul", "aug", "sep", "oct", "nov", "dec"];
const DAYS: [&str; 7] = ["sun", "mon", "tue", "wed", "thu", "fri", "sat"];

/// every item of the documented grammar for field k, and lists of <= 2 items from a reduced set
pub fn grammar_fields(k: usize) -> Vec<String> {
    let (min, max): (u32, u32) = [(0, 59), (0, 23), (1, 31), (1, 12), (0, 6)][k];
    let hi = if k == 4 { 7 } else { max };
    let mut v = vec!["*".to_string()];
    for s in 1..=max + 1 {
        v.push(format!("*/{}", s));
    }
    for a in min..=hi {
        v.push(a.to_string());
        for b in a..=hi {
            v.push(format!("{}-{}", a, b));
        }
    }
    let names: Vec<&str> = if k == 3 { MONTHS.to_vec() } else if k == 4 { DAYS.to_vec() } else { vec![] };
    for (i, n) in names.iter().enumerate() {
        v.extend(casings(n));
        for (j, m) in names.iter().enumerate() {
            if j >= i {
                v.push(format!("{}-{}", n, m));
                v.push(format!("{}-{}", casings(n)[1], casings(m)[2]));
            }
        }
    }
    // lists of two items from a reduced item set
    let mut reduced = vec!["*".to_string(), format!("*/{}", 2), format!("*/{}", max), min.to_string(), hi.to_string(), format!("{}-{}", min, min + 1), format!("{}-{}", hi - 1, hi), ((min + hi) / 2).to_string()];
    if let Some(n) = names.first() {
        reduced.push(n.to_string());
        reduced.push(format!("{}-{}", names[1], casings(names[2])[1]));
    }
    for a in &reduced {
        for b in &reduced {
            v.push(format!("{},{}", a, b));
        }
    }
    v.push(format!("{},{},{}", min, min + 2, hi));
    v
}

fn base_expressions() -> Vec<String> {
    let mut v: Vec<String> = vec![];
    for e in [
        "* * * * *", "*/5 * * * *", "0 0 1 1 0", "0,59 0,23 1,31 1,12 0,6", "0-59 0-23 1-31 1-12 0-6", "* * * jan,FEB,mAr mon,THU,wEd", "* * * jan-dec sun-sat", "* * * * 7", "30 4 1,15 * 5", "5 0 * 8 *", "15 14 1 * *", "0 22 * * 1-5", "23 0-20/2 * * *", "5 4 * * sun", "0 0,12 1 */2 *", "0 4 8-14 * *", "0 0 1,15 * 3", "*/15 9-17 * * mon-fri", "59 23 31 12 *", "0 0 29 2 *", "1-2,5 * * * *", "* * 10-12 oct-dec 5-7", "0 12 * JAN-MAR 0-7", "*/60 */24 */31 */12 */7",
    ] {
        v.push(e.to_string());
    }
    // one expression per field kind and item kind
    for k in 0..5 {
        let g = grammar_fields(k);
        for (i, f) in g.iter().enumerate() {
            if i % (g.len() / 55 + 1) == 0 {
                v.push(super::c16::embed(k, f));
            }
        }
    }
    v.sort();
    v.dedup();
    v
}

// after the ASCII part: the non-ASCII characters whose Unicode upper- or lower-casing is an ASCII letter
// (long s, dotless i, dotted capital I, Kelvin sign), then control characters, no-break space, byte order
// mark and line separator (what a trimming or sanitising step might swallow)
const EDIT_SIGMA: &str = "0123456789*/-,abcdefghijklmnopqrstuvwxyz +.#?_L\u{17f}\u{131}\u{130}\u{212a}\u{0}\u{1b}\u{7f}\u{9f}\u{a0}\u{feff}\u{2028}";

fn mutants(base: &str) -> Vec<String> {
    let c: Vec<char> = base.chars().collect();
    let mut v = vec![];
    for i in 0..c.len() {
        let mut d = c.clone();
        d.remove(i);
        v.push(d.iter().collect());
        for s in EDIT_SIGMA.chars() {
            if s != c[i] {
                let mut t = c.clone();
                t[i] = s;
                v.push(t.iter().collect());
            }
        }
    }
    for i in 0..=c.len() {
        for s in EDIT_SIGMA.chars() {
            let mut t = c.clone();
            t.insert(i, s);
            v.push(t.iter().collect());
        }
    }
    v
}

pub fn run(ctx: &Ctx) -> i32 {
    let mut rep = Report::new(ctx);
    rep.rule = "states = distinct expressions; transitions = real CronSchedule::parse calls and the next() calls used to drain the iterator (clock pinned through the verif hook) across a window containing every value of the field; the projection must equal the set denoted by the reference parser; accept/reject must agree with the reference parser on every single-edit mutant; non-trivial = proper subsets and rejected mutants".into();
    rep.assumptions = vec![
        "not judged (undocumented): steps larger than max+1, a-b/s, descending ranges, numbers with leading zeros, ranges mixing names and numbers".into(),
        "sets of accepted mutants are read from the Debug rendering when it has the known shape, and additionally through 8 next() calls against the brute-force evaluator (all mutants thorough, 1/4 quick)".into(),
    ];
    rep.require(&["grammar-accepted", "mutant-rejected", "mutant-accepted", "unjudged-by-documentation"]);
    for k in 0..5 {
        let g = grammar_fields(k);
        rep.sweep(&format!("grammar: every item of the {} field (values, ranges a<=b, steps, names in 4 casings, lists)", ["minute", "hour", "day-of-month", "month", "day-of-week"][k]), g.len() as u64, "observed through the iterator over a window containing every value of the field", |i, acc| {
            case_grammar(k, &g[i as usize], acc);
            if i % 977 == 0 {
                acc.sample(json!({"expr": embed(k, &g[i as usize])}));
            }
        });
    }
    let bases = base_expressions();
    rep.extra.insert("base_expressions".into(), json!(bases.len()));
    let mut all: Vec<String> = vec![];
    for b in &bases {
        all.push(b.clone());
        all.extend(mutants(b));
    }
    all.sort();
    all.dedup();
    let thorough = ctx.thorough;
    rep.sweep("mutants: every single-character deletion / insertion / substitution of the base expressions", all.len() as u64, "alphabet 0-9 * / - , a-z space + . # ? _ L, the four non-ASCII case-mapping aliases of s, i, k, and NUL ESC DEL U+009F NBSP BOM LS", |i, acc| {
        case_expr(&all[i as usize], thorough || i % 4 == 0, acc);
        if i % 50_021 == 0 {
            acc.sample(json!({"expr": all[i as usize], "reference": format!("{:?}", rc::parse(&all[i as usize])).chars().take(60).collect::<String>()}));
        }
    });
    // field-count and whitespace arrangements
    let mut ws = vec![];
    for n in 0..=7 {
        for sep in [" ", "  ", "\t", " \t "] {
            for (lead, trail) in [("", ""), (" ", ""), ("", " "), ("\t", "\n")] {
                ws.push(format!("{}{}{}", lead, vec!["*"; n].join(sep), trail));
            }
        }
    }
    rep.sweep("field count 0..=7 x whitespace arrangements", ws.len() as u64, "exactly five whitespace-separated fields", |i, acc| case_expr(&ws[i as usize], true, acc));
    astrolabe::verif_hooks::set_now(None);
    rep.finish()
}

pub fn replay(_op: &str, case: &Value, acc: &mut Acc) -> bool {
    match case["kind"].as_str() {
        Some("grammar") => case_grammar(case["field"].as_u64().unwrap() as usize, case["text"].as_str().unwrap(), acc),
        Some("expr") => case_expr(case["expr"].as_str().unwrap(), true, acc),
        _ => return false,
    }
    true
}
