//! C03 — Unix timestamps and ordering are a faithful linear time line (E1).
use crate::alphabets as ab;
use crate::engine::{call, Acc, Ctx, Out, Report, PROFILE};
use crate::real::{dt_from, dt_instant};
use crate::refmodel::calendar as cal;
use crate::refmodel::instant as ins;
use astrolabe::{Date, DateTime, DateUtilities, Offset, OffsetUtilities, TimeUtilities};
use serde_json::{json, Value};
use std::cmp::Ordering;

const TS_MIN: i64 = (cal::MIN_DAY - cal::DAYS_TO_1970) * 86_400;
const TS_MAX: i64 = (cal::MAX_DAY - cal::DAYS_TO_1970) * 86_400 + 86_399;

fn era(ts: i64) -> &'static str {
    if ts < -cal::DAYS_TO_1970 * 86_400 {
        "bc"
    } else if ts < 0 {
        "ad-before-1970"
    } else {
        "after-1970"
    }
}

/// one timestamp: in range -> round trip and field read-back; out of range -> panic
fn case_ts(ts: i64, acc: &mut Acc) {
    case_ts_inner(ts, acc);
    if (ts as u64).wrapping_mul(0x9E37_79B9_7F4A_7C15) >> 61 == 0 {
        crate::props::anchor::values(acc, "from_timestamp (purity probe)", &|| json!({"kind": "ts", "ts": ts}));
    }
}

fn case_ts_inner(ts: i64, acc: &mut Acc) {
    acc.transitions += 4;
    acc.states += 1;
    let in_range = (TS_MIN..=TS_MAX).contains(&ts);
    let case = || json!({"kind": "ts", "ts": ts});
    let d = call(|| Date::from_timestamp(ts).timestamp());
    let t = call(|| {
        let v = DateTime::from_timestamp(ts);
        (v.timestamp(), v.as_ymdhms(), v.nano())
    });
    if in_range {
        let floor = ts.div_euclid(86_400) * 86_400;
        match &d {
            Out::Val(g) if *g == floor => {}
            other => acc.violation("Date::from_timestamp/timestamp", &format!("date-roundtrip-{}", era(ts)), case(), floor.to_string(), other.show()),
        }
        let f = ins::decompose(ins::from_unix(ts, 0));
        let exp = (ts, (f.year as i32, f.month, f.dom, f.hour, f.minute, f.second), 0u32);
        match &t {
            Out::Val(g) if *g == exp => {}
            other => acc.violation("DateTime::from_timestamp/timestamp", &format!("datetime-roundtrip-{}", era(ts)), case(), format!("{:?}", exp), other.show()),
        }
        if ts.rem_euclid(86_400) != 0 {
            acc.nontrivial += 1;
        }
        acc.branch(if ts < 0 { "ts-negative-in-range" } else { "ts-positive-in-range" });
    } else {
        if !matches!(d, Out::Panic(_)) {
            acc.violation("Date::from_timestamp", "out-of-range-no-panic", case(), "panic".into(), d.show());
        }
        if !matches!(t, Out::Panic(_)) {
            acc.violation("DateTime::from_timestamp", "out-of-range-no-panic", case(), "panic".into(), t.show());
        }
        acc.nontrivial += 1;
        acc.branch("ts-out-of-range");
    }
}

fn sign<T: PartialOrd + Default>(v: T) -> i32 {
    let z = T::default();
    if v > z {
        1
    } else if v < z {
        -1
    } else {
        0
    }
}

/// one ordered pair of instants under a pair of offsets: ==, <, cmp are those of the instants
fn case_pair(a: (i64, u64), b: (i64, u64), oa: i32, ob: i32, with_since: bool, acc: &mut Acc) {
    let (x, y) = match (dt_from(a.0, a.1), dt_from(b.0, b.1)) {
        (Some(x), Some(y)) => (x, y),
        _ => {
            acc.violation("DateTime::from_timestamp+set_nano", "construct-readback", json!({"kind": "pair", "a": [a.0, a.1], "b": [b.0, b.1], "oa": oa, "ob": ob, "since": with_since}), "value reads back its instant".into(), "construction failed".into());
            return;
        }
    };
    let (x, y) = match call(|| (x.set_offset(Offset::Fixed(oa)), y.set_offset(Offset::Fixed(ob)))) {
        Out::Val(v) => v,
        _ => {
            acc.branch("pair-offset-out-of-range");
            return;
        }
    };
    acc.transitions += 3;
    acc.states += 1;
    let ia = ins::join(a.0, a.1);
    let ib = ins::join(b.0, b.1);
    let exp = ia.cmp(&ib);
    let case = || json!({"kind": "pair", "a": [a.0, a.1], "b": [b.0, b.1], "oa": oa, "ob": ob, "since": with_since});
    let got = call(|| (x == y, x < y, x.cmp(&y), x.partial_cmp(&y)));
    let want = (exp == Ordering::Equal, exp == Ordering::Less, exp, Some(exp));
    match &got {
        Out::Val(g) if *g == want => {}
        other => acc.violation("DateTime::cmp/eq", if oa == ob { "order-same-offset" } else { "order-different-offsets" }, case(), format!("{:?}", want), other.show()),
    }
    match exp {
        Ordering::Less => acc.branch("pair-less"),
        Ordering::Equal => acc.branch("pair-equal"),
        Ordering::Greater => acc.branch("pair-greater"),
    }
    if ia != ib {
        acc.nontrivial += 1;
    }
    if with_since {
        acc.transitions += 9;
        let e = match exp {
            Ordering::Less => -1,
            Ordering::Equal => 0,
            Ordering::Greater => 1,
        };
        let got = call(|| {
            [
                sign(x.nanos_since(&y)),
                sign(x.micros_since(&y)),
                sign(x.millis_since(&y)),
                sign(x.seconds_since(&y)),
                sign(x.minutes_since(&y)),
                sign(x.hours_since(&y)),
                sign(x.days_since(&y)),
                sign(x.months_since(&y)),
                sign(x.years_since(&y)),
            ]
        });
        let names = ["nanos", "micros", "millis", "seconds", "minutes", "hours", "days", "months", "years"];
        match &got {
            Out::Val(s) => {
                for (i, g) in s.iter().enumerate() {
                    // never contradicts: zero or the same sign; nanos must be exact
                    if (*g != 0 && *g != e) || (i == 0 && *g != e) {
                        acc.violation(&format!("DateTime::{}_since", names[i]), "since-sign-contradicts-order", case(), format!("sign {} or 0", e), g.to_string());
                    }
                }
            }
            other => acc.violation("DateTime::*_since", "since-panic", case(), "values".into(), other.show()),
        }
        acc.branch("since-sign");
    }
}

fn case_date_pair(a: i64, b: i64, acc: &mut Acc) {
    acc.transitions += 2;
    acc.states += 1;
    let case = || json!({"kind": "datepair", "a": a, "b": b});
    let got = call(|| {
        let x = Date::from_timestamp((a - cal::DAYS_TO_1970) * 86_400);
        let y = Date::from_timestamp((b - cal::DAYS_TO_1970) * 86_400);
        (x.cmp(&y), x == y, x < y, sign(x.days_since(&y)), sign(x.months_since(&y)), sign(x.years_since(&y)))
    });
    let exp = a.cmp(&b);
    let e = match exp {
        Ordering::Less => -1,
        Ordering::Equal => 0,
        Ordering::Greater => 1,
    };
    match &got {
        Out::Val((c, eq, lt, sd, sm, sy)) => {
            if *c != exp || *eq != (a == b) || *lt != (a < b) {
                acc.violation("Date::cmp/eq", "date-order", case(), format!("{:?}", exp), format!("{:?} eq={} lt={}", c, eq, lt));
            }
            if *sd != e || (*sm != 0 && *sm != e) || (*sy != 0 && *sy != e) {
                acc.violation("Date::*_since", "date-since-sign-contradicts-order", case(), format!("sign {} (months/years may be 0)", e), format!("days {} months {} years {}", sd, sm, sy));
            }
        }
        other => acc.violation("Date::cmp/eq", "date-order-panic", case(), "values".into(), other.show()),
    }
    acc.branch("date-pair");
}

pub fn run(ctx: &Ctx) -> i32 {
    let mut rep = Report::new(ctx);
    rep.rule = "states = distinct timestamps / (instant pair, offset pair) tuples; transitions = real from_timestamp/timestamp/field read-backs and comparison operators compared with i128 instants; non-trivial = timestamps not at midnight, out-of-range timestamps (panic expected), pairs of different instants".into();
    rep.assumptions = vec!["2^64 timestamps are covered as (all days x 5 second classes, thorough) + (every second of 12 days) + boundary menu".into()];
    rep.require(&["ts-negative-in-range", "ts-positive-in-range", "ts-out-of-range", "pair-less", "pair-equal", "pair-greater", "since-sign", "date-pair"]);
    let checked = PROFILE == "checked";
    let secs = [0i64, 1, 43_199, 43_200, 86_399];
    // (1) days x second classes
    if ctx.thorough && checked {
        rep.sweep("ts:all-2^32-days x 5 second classes", (1u64 << 32) * 5, "every day, seconds of day {0,1,43199,43200,86399}", |i, acc| {
            let day = cal::MIN_DAY + (i / 5) as i64;
            case_ts((day - cal::DAYS_TO_1970) * 86_400 + secs[(i % 5) as usize], acc);
            if i % 2_000_000_011 == 0 {
                acc.sample(json!({"op": "from_timestamp/timestamp", "ts": (day - cal::DAYS_TO_1970) * 86_400 + secs[(i % 5) as usize]}));
            }
        });
    } else {
        let mut days = ab::window_days();
        days.extend(ab::days_b());
        // lattice over the full range, phase from the seed
        let step = if ctx.thorough { 101 } else { 4_099 };
        let phase = (ctx.seed % step as u64) as i64;
        let mut d = cal::MIN_DAY + phase;
        while d <= cal::MAX_DAY {
            days.push(d);
            d += step;
        }
        days.sort();
        days.dedup();
        let n = days.len() as u64 * 5;
        rep.sweep("ts:windows+DAYS_B+lattice x 5 second classes", n, "window days, landmark days, every k-th day of the full range", |i, acc| {
            let day = days[(i / 5) as usize];
            case_ts((day - cal::DAYS_TO_1970) * 86_400 + secs[(i % 5) as usize], acc);
            if i % 500_009 == 0 {
                acc.sample(json!({"op": "from_timestamp/timestamp", "ts": (day - cal::DAYS_TO_1970) * 86_400 + secs[(i % 5) as usize]}));
            }
        });
    }
    // (2) every second of 12 whole days
    let whole: Vec<i64> = vec![
        cal::DAYS_TO_1970 - 1, cal::DAYS_TO_1970, cal::DAYS_TO_1970 + 1, -2, -1, 0, 1, cal::MIN_DAY, cal::MIN_DAY + 1, cal::MAX_DAY - 1, cal::MAX_DAY,
        cal::days_from_civil(2000, 2, 29),
    ];
    rep.sweep("ts:every-second-of-12-days", 12 * 86_400, "around 1970-01-01, 0001-01-01, both range ends, 2000-02-29", |i, acc| {
        let day = whole[(i / 86_400) as usize];
        case_ts((day - cal::DAYS_TO_1970) * 86_400 + (i % 86_400) as i64, acc);
    });
    // (3) out-of-range menu: first/last representable second +- 1..=2 days, i64 bounds, +-2^k
    let mut menu: Vec<i64> = vec![];
    let span = if ctx.thorough { 2 * 86_400 } else { 7_200 };
    for k in 0..=span {
        menu.push(TS_MIN - 1 - k);
        menu.push(TS_MAX + 1 + k);
        menu.push(TS_MIN + k);
        menu.push(TS_MAX - k);
    }
    for k in 0..=3 {
        menu.push(i64::MIN + k);
        menu.push(i64::MAX - k);
    }
    for k in 32..=62 {
        menu.push(1i64 << k);
        menu.push(-(1i64 << k));
        menu.push((1i64 << k) - 1);
        menu.push(-(1i64 << k) + 1);
    }
    rep.sweep("ts:range-boundary-menu", menu.len() as u64, "range ends +- k, i64 bounds, powers of two", |i, acc| {
        case_ts(menu[i as usize], acc);
        if i % 50_021 == 0 {
            acc.sample(json!({"op": "from_timestamp (boundary)", "ts": menu[i as usize], "in_range": (TS_MIN..=TS_MAX).contains(&menu[i as usize])}));
        }
    });
    // (4) ordering: all ordered pairs of INST x offset pairs
    let days = if ctx.thorough && checked { ab::days_b() } else { ab::days_b_small() };
    let nanos = ab::nanos_b();
    let mut inst: Vec<(i64, u64)> = vec![];
    for d in &days {
        for n in &nanos {
            inst.push((*d, *n));
        }
    }
    let offs5 = [0i32, 3600, -3600, 86_399, -86_399];
    let ni = inst.len() as u64;
    let pairs_per = if ctx.thorough && checked { 1 } else { 25 };
    rep.sweep("order:all-pairs(INST) x offset-pairs", ni * ni * pairs_per, "every ordered pair of boundary instants; 25 offset pairs from {0,+-3600,+-86399} (thorough/checked: INST_T with offset pair chosen by index)", |i, acc| {
        let p = i / pairs_per;
        let (ai, bi) = ((p / ni) as usize, (p % ni) as usize);
        let k = if pairs_per == 25 { i % 25 } else { p % 25 };
        let (oa, ob) = (offs5[(k / 5) as usize], offs5[(k % 5) as usize]);
        case_pair(inst[ai], inst[bi], oa, ob, k == 0 || k == 9, acc);
        if i % 40_000_003 == 0 {
            acc.sample(json!({"op": "cmp/eq", "a": [inst[ai].0, inst[ai].1], "b": [inst[bi].0, inst[bi].1], "offsets": [oa, ob]}));
        }
    });
    // (5) all pairs of OFFS_B on a 100-instant subset
    let offs = ab::offs_b();
    let sub: Vec<(i64, u64)> = inst.iter().step_by((inst.len() / 100).max(1)).cloned().collect();
    let (ns, no) = (sub.len() as u64, offs.len() as u64);
    rep.sweep("order:subset-pairs x all OFFS_B pairs", ns * ns * no * no, "100-instant subset, every pair of boundary offsets", |i, acc| {
        let (p, o) = (i / (no * no), i % (no * no));
        case_pair(sub[(p / ns) as usize], sub[(p % ns) as usize], offs[(o / no) as usize], offs[(o % no) as usize], false, acc);
    });
    // (6) Date pairs
    let db = ab::days_b();
    let nd = db.len() as u64;
    // history independence: a pair right after a sibling pair
    let mut dists: Vec<i128> = vec![];
    for k in 0..=46 {
        dists.push(1i128 << k);
    }
    for j in 0..=20 {
        dists.push((1i128 << j) * ins::DAY);
    }
    dists.extend([1_000, 1_000_000, 999_999_999, ins::NS, 60 * ins::NS, 3_600 * ins::NS, 365 * ins::DAY, 146_097 * ins::DAY, 719_162 * ins::DAY, 730_179 * ins::DAY]);
    let bases: Vec<i128> = [0i64, 738_276, 738_277, -366, -146_097, 2_000_000].iter().flat_map(|d| [0u64, 1, 43_200_000_000_000, 43_200_000_000_001, 5_294_967_296, 86_399_999_999_999].iter().map(move |n| ins::join(*d, *n))).collect();
    let others: [i128; 5] = [-ins::DAY, -ins::NS, 1, 2 * ins::DAY, -2 * ins::DAY - 2_294_967_296];
    let (nb, no, ndist) = (bases.len() as u64, others.len() as u64, dists.len() as u64);
    rep.sweep("order and *_since of a pair right after a sibling pair: 36 instants x 5 partners x 78 distances x both signs x {a, b, both moved}", nb * no * ndist * 2 * 3, "distances: 2^k ns, 2^j days, the code's time units and calendar constants", |i, acc| {
        let which = i % 3;
        let sign = if i / 3 % 2 == 0 { 1 } else { -1 };
        let delta = dists[(i / 6 % ndist) as usize] * sign;
        let r = i / (6 * ndist);
        let a = bases[(r / no) as usize];
        let b = a + others[(r % no) as usize];
        let (da, db) = match which { 0 => (delta, 0), 1 => (0, delta), _ => (delta, delta) };
        case_pair_after_sibling(a, b, da, db, acc);
    });
    rep.sweep("order:all-pairs(DAYS_B):Date", nd * nd, "Date order is day order; since signs", |i, acc| {
        case_date_pair(db[(i / nd) as usize], db[(i % nd) as usize], acc);
    });
    let _ = dt_instant;
    rep.finish()
}

/// order and *_since of a pair asked right after the same questions about a sibling pair (one or both
/// operands moved by a power of two of nanoseconds or days, or by one of the code's time units):
/// the answer must be that of the pair alone
fn case_pair_after_sibling(a: i128, b: i128, da: i128, db: i128, acc: &mut Acc) {
    let (sa, sb) = (a + da, b + db);
    if !(ins::representable(a) && ins::representable(b) && ins::representable(sa) && ins::representable(sb)) {
        return;
    }
    let mk = |i: i128| {
        let (d, n) = ins::split(i);
        dt_from(d, n)
    };
    let (x, y, p, q) = match (mk(a), mk(b), mk(sa), mk(sb)) {
        (Some(x), Some(y), Some(p), Some(q)) => (x, y, p, q),
        _ => return,
    };
    acc.transitions += 2;
    acc.states += 1;
    let ask = |u: &DateTime, v: &DateTime| (u.cmp(v), u == v, u.days_since(v) as i128, u.hours_since(v) as i128, u.minutes_since(v) as i128, u.seconds_since(v) as i128, u.millis_since(v), u.micros_since(v), u.nanos_since(v));
    let got = call(|| {
        let _ = ask(&p, &q);
        ask(&x, &y)
    });
    let d = a - b;
    let t = |unit: i128| if d >= 0 { d / unit } else { -((-d) / unit) };
    let want = (a.cmp(&b), a == b, t(86_400 * ins::NS), t(3_600 * ins::NS), t(60 * ins::NS), t(ins::NS), t(1_000_000), t(1_000), d);
    if got == Out::Val(want) {
        acc.branch("asked-after-a-sibling-pair");
    } else {
        acc.violation("DateTime order / *_since", "answer-depends-on-the-previous-call", json!({"kind": "sibling", "a": a.to_string(), "b": b.to_string(), "da": da.to_string(), "db": db.to_string()}), format!("{:?}", want), got.show());
    }
}

pub fn replay(_op: &str, case: &Value, acc: &mut Acc) -> bool {
    if case["kind"].as_str() == Some("sibling") {
        let g = |k: &str| case[k].as_str().unwrap().parse::<i128>().unwrap();
        case_pair_after_sibling(g("a"), g("b"), g("da"), g("db"), acc);
        return true;
    }
    let pair = |v: &Value| (v[0].as_i64().unwrap(), v[1].as_u64().unwrap());
    match case["kind"].as_str() {
        Some("ts") => case_ts(case["ts"].as_i64().unwrap(), acc),
        Some("pair") => case_pair(pair(&case["a"]), pair(&case["b"]), case["oa"].as_i64().unwrap() as i32, case["ob"].as_i64().unwrap() as i32, case["since"].as_bool().unwrap_or(true), acc),
        Some("datepair") => case_date_pair(case["a"].as_i64().unwrap(), case["b"].as_i64().unwrap(), acc),
        _ => return false,
    }
    true
}
