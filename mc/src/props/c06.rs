//! C06 — elapsed-unit differences are the exact difference truncated toward zero (E1).
use crate::alphabets as ab;
use crate::engine::{call, Acc, Ctx, Out, Report, PROFILE};
use crate::props::c04::{apply_unit, UNITS};
use crate::real::{dt_from_off, time_from};
use crate::refmodel::calendar as cal;
use crate::refmodel::instant as ins;
use astrolabe::{Date, DateUtilities, TimeUtilities};
use serde_json::{json, Value};
use std::time::Duration;

fn trunc_div(a: i128, b: i128) -> i128 {
    a / b // Rust integer division truncates toward zero
}

/// all seven differences, duration_between, antisymmetry for one ordered pair of DateTimes
fn case_dt_pair(a: (i64, u64), b: (i64, u64), oa: i32, ob: i32, acc: &mut Acc) {
    case_dt_pair_inner(a, b, oa, ob, acc);
    if crate::props::anchor::hash(&[a.0 as u64, a.1, b.0 as u64, b.1]) % 16 == 0 {
        crate::props::anchor::values(acc, "differences (purity probe)", &|| json!({"kind": "dt", "a": [a.0, a.1.to_string()], "b": [b.0, b.1.to_string()], "oa": oa, "ob": ob}));
    }
}

fn case_dt_pair_inner(a: (i64, u64), b: (i64, u64), oa: i32, ob: i32, acc: &mut Acc) {
    let (x, y) = match (dt_from_off(a.0, a.1, oa), dt_from_off(b.0, b.1, ob)) {
        (Some(x), Some(y)) => (x, y),
        _ => {
            acc.branch("construct-skipped");
            return;
        }
    };
    acc.transitions += 16;
    acc.states += 1;
    let diff = ins::join(a.0, a.1) - ins::join(b.0, b.1);
    let case = || json!({"kind": "dt", "a": [a.0, a.1.to_string()], "b": [b.0, b.1.to_string()], "oa": oa, "ob": ob});
    let got = call(|| {
        (
            [x.days_since(&y) as i128, x.hours_since(&y) as i128, x.minutes_since(&y) as i128, x.seconds_since(&y) as i128, x.millis_since(&y), x.micros_since(&y), x.nanos_since(&y)],
            [y.days_since(&x) as i128, y.hours_since(&x) as i128, y.minutes_since(&x) as i128, y.seconds_since(&x) as i128, y.millis_since(&x), y.micros_since(&x), y.nanos_since(&x)],
            x.duration_between(&y),
            y.duration_between(&x),
        )
    });
    match &got {
        Out::Val((fwd, back, d1, d2)) => {
            let cls = if (ins::join(a.0, a.1) < 0) != (ins::join(b.0, b.1) < 0) { "straddling-0001-01-01" } else if a.0 < 0 { "both-before-0001-01-01" } else { "both-ad" };
            for u in 0..7 {
                let e = trunc_div(diff, UNITS[u].1);
                if fwd[u] != e {
                    acc.violation(&format!("DateTime::{}_since", UNITS[u].0), &format!("wrong-difference-{}", cls), case(), e.to_string(), fwd[u].to_string());
                }
                if back[u] != -fwd[u] {
                    acc.violation(&format!("DateTime::{}_since", UNITS[u].0), &format!("not-antisymmetric-{}", cls), case(), (-fwd[u]).to_string(), back[u].to_string());
                }
                if diff != 0 && diff.abs() < UNITS[u].1 {
                    acc.branch("differ-by-less-than-one-unit");
                }
            }
            let ad = diff.unsigned_abs();
            let ed = Duration::new((ad / 1_000_000_000) as u64, (ad % 1_000_000_000) as u32);
            if *d1 != ed || *d2 != ed {
                acc.violation("DateTime::duration_between", &format!("wrong-duration-{}", cls), case(), format!("{:?}", ed), format!("{:?} / {:?}", d1, d2));
            }
            if diff != 0 {
                acc.nontrivial += 1;
            }
            if cls == "straddling-0001-01-01" {
                acc.branch("straddling-era");
            }
        }
        other => acc.violation("DateTime::*_since", "panic", case(), "values".into(), other.show()),
    }
}

/// one unit at a time, two calls in a row whose arguments are siblings (the same value a nanosecond,
/// microsecond, ... day apart): the second answer must not depend on the first call
fn case_unit_after_sibling(a: (i64, u64), b: (i64, u64), unit: usize, delta: i128, vary_b: bool, acc: &mut Acc) {
    let sib = if vary_b { ins::join(b.0, b.1) + delta } else { ins::join(a.0, a.1) + delta };
    if !ins::representable(sib) {
        return;
    }
    let s = ins::split(sib);
    let (x, y, z) = match (dt_from_off(a.0, a.1, 0), dt_from_off(b.0, b.1, 0), dt_from_off(s.0, s.1, 0)) {
        (Some(x), Some(y), Some(z)) => (x, y, z),
        _ => return,
    };
    let since = |p: &astrolabe::DateTime, q: &astrolabe::DateTime| -> i128 {
        match unit {
            0 => p.days_since(q) as i128,
            1 => p.hours_since(q) as i128,
            2 => p.minutes_since(q) as i128,
            3 => p.seconds_since(q) as i128,
            4 => p.millis_since(q),
            5 => p.micros_since(q),
            _ => p.nanos_since(q),
        }
    };
    acc.transitions += 2;
    acc.states += 1;
    let got = call(|| {
        let _first = if vary_b { since(&x, &z) } else { since(&z, &y) };
        since(&x, &y)
    });
    let want = trunc_div(ins::join(a.0, a.1) - ins::join(b.0, b.1), UNITS[unit].1);
    if got == Out::Val(want) {
        acc.branch("asked-after-a-sibling");
    } else {
        acc.violation(&format!("DateTime::{}_since", UNITS[unit].0), "answer-depends-on-the-previous-call", json!({"kind": "sibling", "a": [a.0, a.1.to_string()], "b": [b.0, b.1.to_string()], "unit": unit, "delta": delta.to_string(), "vary_b": vary_b}), want.to_string(), got.show());
    }
}

/// add_<unit>(n) then <unit>_since(original) gives n back
fn case_inverse(day: i64, nod: u64, off: i32, unit: usize, n: u32, acc: &mut Acc) {
    let x = match dt_from_off(day, nod, off) {
        Some(x) => x,
        None => return,
    };
    let target = ins::join(day, nod) + n as i128 * UNITS[unit].1;
    if !ins::representable(target) {
        return;
    }
    acc.transitions += 2;
    acc.states += 1;
    let got = call(|| {
        let y = apply_unit(&x, unit * 2, n);
        match unit {
            0 => y.days_since(&x) as i128,
            1 => y.hours_since(&x) as i128,
            2 => y.minutes_since(&x) as i128,
            3 => y.seconds_since(&x) as i128,
            4 => y.millis_since(&x),
            5 => y.micros_since(&x),
            _ => y.nanos_since(&x),
        }
    });
    match &got {
        Out::Val(g) if *g == n as i128 => acc.branch("inverts-add"),
        other => acc.violation(&format!("DateTime::{}_since", UNITS[unit].0), "does-not-invert-add", json!({"kind": "inverse", "day": day, "nod": nod.to_string(), "off": off, "unit": unit, "n": n}), n.to_string(), other.show()),
    }
}

fn case_time_pair(a: u64, b: u64, oa: i32, ob: i32, acc: &mut Acc) {
    let (x, y) = (time_from(a, oa).unwrap(), time_from(b, ob).unwrap());
    acc.transitions += 13;
    acc.states += 1;
    let diff = a as i128 - b as i128;
    let case = || json!({"kind": "time", "a": a.to_string(), "b": b.to_string(), "oa": oa, "ob": ob});
    let got = call(|| {
        (
            [x.hours_since(&y) as i128, x.minutes_since(&y) as i128, x.seconds_since(&y) as i128, x.millis_since(&y) as i128, x.micros_since(&y) as i128, x.nanos_since(&y) as i128],
            [y.hours_since(&x) as i128, y.minutes_since(&x) as i128, y.seconds_since(&x) as i128, y.millis_since(&x) as i128, y.micros_since(&x) as i128, y.nanos_since(&x) as i128],
            x.duration_between(&y),
        )
    });
    match &got {
        Out::Val((fwd, back, d)) => {
            for u in 0..6 {
                let e = trunc_div(diff, UNITS[u + 1].1);
                if fwd[u] != e {
                    acc.violation(&format!("Time::{}_since", UNITS[u + 1].0), "wrong-difference", case(), e.to_string(), fwd[u].to_string());
                }
                if back[u] != -fwd[u] {
                    acc.violation(&format!("Time::{}_since", UNITS[u + 1].0), "not-antisymmetric", case(), (-fwd[u]).to_string(), back[u].to_string());
                }
            }
            let ad = diff.unsigned_abs();
            if *d != Duration::new((ad / 1_000_000_000) as u64, (ad % 1_000_000_000) as u32) {
                acc.violation("Time::duration_between", "wrong-duration", case(), format!("{} ns", ad), format!("{:?}", d));
            }
            if diff != 0 {
                acc.nontrivial += 1;
            }
            acc.branch("time-pair");
        }
        other => acc.violation("Time::*_since", "panic", case(), "values".into(), other.show()),
    }
}

fn case_date_pair(a: i64, b: i64, acc: &mut Acc) {
    acc.transitions += 3;
    acc.states += 1;
    let got = call(|| {
        let x = Date::from_timestamp((a - cal::DAYS_TO_1970) * 86_400);
        let y = Date::from_timestamp((b - cal::DAYS_TO_1970) * 86_400);
        (x.days_since(&y), y.days_since(&x), x.duration_between(&y), y.duration_between(&x))
    });
    let e = a - b;
    let ed = Duration::from_secs(e.unsigned_abs() * 86_400);
    match &got {
        Out::Val((f, r, d1, d2)) if *f == e && *r == -e && *d1 == ed && *d2 == ed => acc.branch("date-pair"),
        other => acc.violation("Date::days_since/duration_between", "wrong-difference", json!({"kind": "date", "a": a, "b": b}), format!("{} / {:?}", e, ed), other.show()),
    }
}

pub fn run(ctx: &Ctx) -> i32 {
    let mut rep = Report::new(ctx);
    rep.rule = "states = distinct ordered pairs (with offsets); transitions = real *_since / duration_between calls compared with trunc((a-b)/unit) on i128 instants, antisymmetry, inversion of add_<unit>, |a-b|; non-trivial = pairs of different instants".into();
    rep.assumptions = vec!["offsets must not change any difference: pairs are evaluated under offset pairs from {0, +3600, -86399, +19800}".into()];
    rep.require(&["differ-by-less-than-one-unit", "straddling-era", "inverts-add", "time-pair", "date-pair"]);
    let checked = PROFILE == "checked";
    let days = if ctx.thorough && checked { ab::days_b() } else { ab::days_b_small() };
    let nanos = ab::nanos_b();
    let mut inst: Vec<(i64, u64)> = vec![];
    for d in &days {
        for n in &nanos {
            inst.push((*d, *n));
        }
    }
    let ni = inst.len() as u64;
    let offp = [(0, 0), (3600, -86_399), (19_800, 0), (-86_399, 3600)];
    rep.sweep("DateTime: all ordered pairs of INST x 7 units", ni * ni, "every ordered pair of boundary instants; the offset pair is chosen by the pair index", |i, acc| {
        let (ai, bi) = ((i / ni) as usize, (i % ni) as usize);
        let (oa, ob) = offp[(i % 4) as usize];
        case_dt_pair(inst[ai], inst[bi], oa, ob, acc);
        if i % 20_000_003 == 0 {
            acc.sample(json!({"op": "*_since", "a": inst[ai], "b": inst[bi], "offsets": [oa, ob]}));
        }
    });
    // borrow grid: k*unit + {-1,0,+1} ns around anchors, all pairs
    let mut grid: Vec<(i64, u64)> = vec![];
    for anchor in [0i128, ins::join(cal::DAYS_TO_1970, 0), ins::join(-366, 0)] {
        for u in 0..7 {
            for k in -2i128..=2 {
                for e in -1i128..=1 {
                    let (d, n) = ins::split(anchor + k * UNITS[u].1 + e);
                    grid.push((d, n));
                }
            }
        }
    }
    grid.sort();
    grid.dedup();
    let ng = grid.len() as u64;
    rep.sweep("DateTime: borrow grid k*unit + {-1,0,+1} ns, all pairs", ng * ng, "around 0001-01-01, 1970-01-01 and -0001-01-01", |i, acc| {
        case_dt_pair(grid[(i / ng) as usize], grid[(i % ng) as usize], 0, if i % 3 == 0 { 3600 } else { 0 }, acc);
    });
    // spans of 2^k units (+- a little): every bit of every unit's difference is set once, so a result
    // squeezed through a narrower integer on the way shows at the width where it happens
    let mut pow: Vec<((i64, u64), (i64, u64))> = vec![];
    let total = ins::MAX_INSTANT - ins::MIN_INSTANT;
    for u in 0..7 {
        for k in 0..=80u32 {
            let span = match UNITS[u].1.checked_mul(1i128 << k) {
                Some(s) if s < total - 4 * ins::DAY => s,
                _ => break,
            };
            for base in [ins::MIN_INSTANT + ins::DAY, -(span / 2), ins::MAX_INSTANT - ins::DAY - span - 2_000] {
                for e in [-1_001i128, -1, 0, 1, 999, 1_001] {
                    let (lo, hi) = (base, base + span + e);
                    if ins::representable(lo) && ins::representable(hi) && lo > ins::MIN_INSTANT + ins::DAY / 2 && hi < ins::MAX_INSTANT - ins::DAY / 2 {
                        pow.push((ins::split(hi), ins::split(lo)));
                        pow.push((ins::split(lo), ins::split(hi)));
                    }
                }
            }
        }
    }
    let npow = pow.len() as u64;
    rep.sweep("DateTime: pairs 2^k units apart (+-1 ns, +-1 us) for every unit and every k, three placements, both orders", npow, "k up to the width of the representable range in that unit", |i, acc| {
        let (a, b) = pow[i as usize];
        case_dt_pair(a, b, 0, if i % 5 == 0 { 3600 } else { 0 }, acc);
    });
    // history independence: the same unit asked twice in a row with one argument moved by one of the code's time units
    const NDIST: [i128; 10] = [1, -1, 999, 1_000, -1_000, 1_000_000, 999_999_999, 1_000_000_000, 60_000_000_000, 86_400_000_000_000];
    let sa: Vec<(i64, u64)> = grid.iter().copied().chain(inst.iter().copied().step_by(7)).collect();
    let sb: Vec<(i64, u64)> = grid.iter().copied().step_by(3).collect();
    let (nsa, nsb) = (sa.len() as u64, sb.len() as u64);
    rep.sweep("DateTime: <unit>_since asked right after the same question about a sibling argument (7 units x 10 distances x both arguments)", nsa * nsb * 7 * 10 * 2, "borrow grid and boundary instants as a, borrow grid as b", |i, acc| {
        let vary_b = i % 2 == 0;
        let delta = NDIST[(i / 2 % 10) as usize];
        let unit = (i / 20 % 7) as usize;
        let r = i / 140;
        case_unit_after_sibling(sa[(r / nsb) as usize], sb[(r % nsb) as usize], unit, delta, vary_b, acc);
    });
    // inversion of add_<unit>
    let counts = ab::counts_b();
    let nc = counts.len() as u64;
    let idays = ab::days_b_small();
    let nid = idays.len() as u64;
    rep.sweep("DateTime: add_<unit>(n).<unit>_since(self) == n", nid * 3 * 7 * nc, "DAYS_B' x 3 times of day x 7 units x COUNTS_B (representable targets)", |i, acc| {
        let n = counts[(i % nc) as usize];
        let u = (i / nc % 7) as usize;
        let t = [0u64, 43_200_000_000_001, ab::DAY_NS - 1][(i / (nc * 7) % 3) as usize];
        case_inverse(idays[(i / (nc * 21)) as usize], t, if i % 5 == 0 { -86_399 } else { 0 }, u, n, acc);
    });
    // Time pairs
    if ctx.thorough && checked {
        rep.sweep("Time: all ordered pairs on the one-second grid", 86_400 * 86_400, "7.46e9 pairs x 6 units", |i, acc| {
            case_time_pair((i / 86_400) * 1_000_000_000, (i % 86_400) * 1_000_000_000 + (i % 3) * 499_999_999, 0, 0, acc);
        });
    }
    let tg: Vec<u64> = (0..1440u64).flat_map(|m| [0u64, 1, 999_999_999].into_iter().map(move |s| m * 60_000_000_000 + s)).collect();
    let ntg = tg.len() as u64;
    rep.sweep("Time: all ordered pairs of minute-grid x {0,1,1e9-1}", ntg * ntg, "6 units, antisymmetry, duration_between", |i, acc| {
        case_time_pair(tg[(i / ntg) as usize], tg[(i % ntg) as usize], if i % 7 == 0 { 3600 } else { 0 }, 0, acc);
        if i % 6_000_011 == 0 {
            acc.sample(json!({"op": "Time *_since", "a": tg[(i / ntg) as usize], "b": tg[(i % ntg) as usize]}));
        }
    });
    // Date pairs
    let mut dd = ab::days_b();
    dd.extend(-800..800);
    dd.sort();
    dd.dedup();
    let ndd = dd.len() as u64;
    rep.sweep("Date: all pairs of DAYS_B + window", ndd * ndd, "days_since, duration_between", |i, acc| case_date_pair(dd[(i / ndd) as usize], dd[(i % ndd) as usize], acc));
    rep.finish()
}

pub fn replay(_op: &str, case: &Value, acc: &mut Acc) -> bool {
    let p = |v: &Value| (v[0].as_i64().unwrap(), v[1].as_str().unwrap().parse::<u64>().unwrap());
    match case["kind"].as_str() {
        Some("sibling") => case_unit_after_sibling(p(&case["a"]), p(&case["b"]), case["unit"].as_u64().unwrap() as usize, case["delta"].as_str().unwrap().parse().unwrap(), case["vary_b"].as_bool().unwrap(), acc),
        Some("dt") => case_dt_pair(p(&case["a"]), p(&case["b"]), case["oa"].as_i64().unwrap() as i32, case["ob"].as_i64().unwrap() as i32, acc),
        Some("inverse") => case_inverse(case["day"].as_i64().unwrap(), case["nod"].as_str().unwrap().parse().unwrap(), case["off"].as_i64().unwrap() as i32, case["unit"].as_u64().unwrap() as usize, case["n"].as_u64().unwrap() as u32, acc),
        Some("time") => case_time_pair(case["a"].as_str().unwrap().parse().unwrap(), case["b"].as_str().unwrap().parse().unwrap(), case["oa"].as_i64().unwrap() as i32, case["ob"].as_i64().unwrap() as i32, acc),
        Some("date") => case_date_pair(case["a"].as_i64().unwrap(), case["b"].as_i64().unwrap(), acc),
        _ => return false,
    }
    true
}
