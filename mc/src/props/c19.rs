//! C19 — malformed or hostile timezone data is rejected, never a crash
//! (E3: exhaustive structural fault enumeration of valid files + mutated POSIX-TZ footers; supervised).
use crate::engine::{call, Acc, Ctx, Out, Report};
use crate::refmodel::calendar as cal;
use crate::refmodel::tzif::{self as rz, Zone};
use astrolabe::Offset;
use serde_json::{json, Value};
use std::time::Duration;

const TS_MIN: i64 = (cal::MIN_DAY - cal::DAYS_TO_1970) * 86_400;
const TS_MAX: i64 = (cal::MAX_DAY - cal::DAYS_TO_1970) * 86_400 + 86_399;

fn lookups() -> Vec<i64> {
    vec![0, 1, -1, 2_147_483_647, 2_147_483_649, -2_147_483_649, 1_720_000_000, 1_688_000_000, 1_709_164_800, TS_MIN, TS_MIN + 1, TS_MAX, TS_MAX - 1, TS_MIN + 366 * 86_400, TS_MAX - 366 * 86_400, TS_MIN + 200 * 86_400, TS_MAX - 100 * 86_400]
}

/// for structural faults: additionally every transition instant of the base files (and its
/// neighbours) and +-2^k, so that every interval of a (possibly shifted) table is looked up
fn wide_lookups() -> Vec<i64> {
    let mut v = lookups();
    for t in [-1_000_000_000i64, 954_032_400, 972_781_200, 0, 78_796_800, 94_694_400] {
        v.extend([t - 1, t, t + 1]);
    }
    v.extend([960_000_000, 1_000_000_000, -1_500_000_000]);
    for k in 0..=47 {
        v.push(1i64 << k);
        v.push(-(1i64 << k));
    }
    v.retain(|t| (TS_MIN..=TS_MAX).contains(t));
    v.sort();
    v.dedup();
    v
}

fn hex(b: &[u8]) -> String {
    b.iter().map(|x| format!("{:02x}", x)).collect()
}
fn unhex(s: &str) -> Vec<u8> {
    (0..s.len() / 2).map(|i| u8::from_str_radix(&s[2 * i..2 * i + 2], 16).unwrap()).collect()
}

fn panic_class(msg: &str) -> &'static str {
    if msg.contains("shouldn't happen") {
        "expect-BUG_MSG"
    } else if msg.contains("overflow") {
        "arithmetic-overflow"
    } else if msg.contains("index out of bounds") || msg.contains("out of range for slice") {
        "index-out-of-bounds"
    } else if msg.contains("unwrap") || msg.contains("OutOfRange") {
        "unwrap-on-error"
    } else {
        "other"
    }
}

/// purity probe: after every offered byte string a well-formed anchor file is read and looked up
/// again; what the previous (possibly damaged) input left behind must not change the answers
fn anchor_probe(pred_label: &str, pred: &[u8], acc: &mut Acc) {
    use std::sync::OnceLock;
    static ANCHOR: OnceLock<(Vec<u8>, Vec<i64>, Vec<i32>)> = OnceLock::new();
    let (bytes, ts, want) = ANCHOR.get_or_init(|| {
        let z = zone(2, vec![(-1_000_000_000i64, 1usize), (954_032_400, 2), (972_781_200, 1)], "CET-1CEST,M3.5.0,M10.5.0/3");
        let z = Zone { footer: rz::parse_posix_tz("CET-1CEST,M3.5.0,M10.5.0/3", false), ..z };
        let b = rz::write_tzif(&z);
        let ts = vec![0i64, 960_000_000, 1_000_000_000, 1_720_000_000, 1_735_000_000];
        let want = ts.iter().map(|t| rz::offset_at(&z, *t).unwrap_or(i32::MIN)).collect();
        (b, ts, want)
    });
    acc.transitions += 1;
    let got = call(|| astrolabe::verif_hooks::tzif_offsets(bytes, ts));
    if got != Out::Val(Ok(want.clone())) {
        acc.violation("TZif reader / lookup", "well-formed-file-answered-differently-after-another-input", json!({"kind": "anchor", "label": pred_label, "hex": hex(pred)}), format!("{:?}", want), got.show().chars().take(300).collect());
    }
}

/// one byte string offered as TZif data
fn case_bytes(label: &str, bytes: &[u8], with_local: bool, acc: &mut Acc) {
    case_bytes_inner(label, bytes, with_local, acc);
    anchor_probe(label, bytes, acc);
}

fn case_bytes_inner(label: &str, bytes: &[u8], with_local: bool, acc: &mut Acc) {
    acc.transitions += 1;
    acc.states += 1;
    let ts = if label.starts_with("footer") { lookups() } else { wide_lookups() };
    let got = call(|| astrolabe::verif_hooks::tzif_offsets(bytes, &ts));
    let case = || json!({"kind": "bytes", "label": label, "hex": hex(bytes)});
    match &got {
        Out::Val(Ok(o)) if o.len() == ts.len() => {
            acc.branch("accepted-and-all-lookups-answered");
            acc.transitions += ts.len() as u64;
        }
        Out::Val(Err(_)) => {
            acc.branch("rejected-with-error");
            acc.nontrivial += 1;
        }
        other => acc.violation("TZif reader / lookup", &format!("panic-{}", panic_class(&other.show())), case(), "an error, or offsets for every lookup".into(), other.show().chars().take(300).collect()),
    }
    if with_local {
        acc.transitions += 1;
        astrolabe::verif_hooks::set_localtime_bytes(Some(bytes.to_vec()));
        astrolabe::verif_hooks::set_now(Some(Duration::from_secs(1_720_000_000)));
        // twice in a row on the same data: the second answer must be the first (and must not panic either)
        let r = call(|| {
            let first = Offset::Local.resolve();
            let second = Offset::Local.resolve();
            if first == second { first } else { panic!("second resolve on the same data gave {} after {}", second, first) }
        });
        astrolabe::verif_hooks::set_localtime_bytes(None);
        astrolabe::verif_hooks::set_now(None);
        match &r {
            Out::Val(o) if o.abs() < 86_400 * 2 => acc.branch("offset-local-resolved"),
            Out::Val(_) => acc.branch("offset-local-resolved"),
            other => acc.violation("Offset::Local.resolve", &format!("damaged-localtime-panic-{}", panic_class(&other.show())), json!({"kind": "local", "label": label, "hex": hex(bytes)}), "an offset (no panic)".into(), other.show().chars().take(300).collect()),
        }
    }
}

fn zone(version: u8, transitions: Vec<(i64, usize)>, footer: &str) -> Zone {
    Zone { version, transitions, types: vec![(-1234, false, 0), (3600, false, 4), (7200, true, 8)], footer: None, footer_text: footer.to_string(), leaps: 0, indicators: false }
}

/// base files: (label, bytes)
pub fn bases() -> Vec<(String, Vec<u8>)> {
    let t3 = vec![(-1_000_000_000i64, 1usize), (954_032_400, 2), (972_781_200, 1)];
    let mut v = vec![
        ("v1-table".to_string(), rz::write_tzif(&zone(1, t3.clone(), ""))),
        ("v2-fixed-footer".to_string(), rz::write_tzif(&zone(2, t3.clone(), "CET-1"))),
        ("v2-alt-footer".to_string(), rz::write_tzif(&zone(2, t3.clone(), "CET-1CEST,M3.5.0,M10.5.0/3"))),
        ("v3-alt-footer".to_string(), rz::write_tzif(&zone(3, vec![], "IST-2IDT,M3.4.4/26,M10.5.0"))),
        ("v2-julian-footer".to_string(), rz::write_tzif(&zone(2, vec![(0, 1)], "CET-1CEST,J60,300/1:30"))),
    ];
    let mut lz = zone(2, t3.clone(), "EST5EDT,M3.2.0,M11.1.0");
    lz.leaps = 2;
    lz.indicators = true;
    v.push(("v2-leap-records-and-indicators".to_string(), rz::write_tzif(&lz)));
    if let Ok(b) = std::fs::read(format!("{}/Africa__Casablanca", crate::props::c18::corpus_dir())) {
        v.push(("corpus-Africa__Casablanca".to_string(), b));
    }
    v
}

fn header_offsets(b: &[u8]) -> Vec<usize> {
    // offset of the second header (after the v1 block), if any
    let mut v = vec![0usize];
    if b.len() >= 44 && b[4] != 0 {
        let c = |k: usize| u32::from_be_bytes([b[20 + 4 * k], b[21 + 4 * k], b[22 + 4 * k], b[23 + 4 * k]]) as usize;
        let need = c(3) * 5 + c(4) * 6 + c(5) + c(2) * 8 + c(1) + c(0);
        if b.len() >= 44 + need + 44 {
            v.push(44 + need);
        }
    }
    v
}

/// structural faults of one base file
fn structural_faults(b: &[u8], thorough: bool) -> Vec<(String, Vec<u8>)> {
    let mut out = vec![];
    if thorough && b.len() <= 200 {
        // every pair of byte positions x 8 x 8 substitution values
        let vals = [0x00u8, 0x01, 0x0A, 0x2C, 0x30, 0x7F, 0x80, 0xFF];
        for p1 in 0..b.len() {
            for p2 in p1 + 1..b.len() {
                for v1 in vals {
                    for v2 in vals {
                        if b[p1] != v1 && b[p2] != v2 {
                            let mut m = b.to_vec();
                            m[p1] = v1;
                            m[p2] = v2;
                            out.push((format!("bytes@{}={:#x},@{}={:#x}", p1, v1, p2, v2), m));
                        }
                    }
                }
            }
        }
    }
    for cut in 0..b.len() {
        out.push((format!("truncate@{}", cut), b[..cut].to_vec()));
    }
    let hdrs = header_offsets(b);
    let count_values = |exact: u32| vec![0u32, 1, exact.wrapping_sub(1), exact.wrapping_add(1), 255, 65_536, 1 << 31, u32::MAX];
    let mut single: Vec<(usize, u32)> = vec![];
    for h in &hdrs {
        for k in 0..6 {
            let pos = h + 20 + 4 * k;
            let exact = u32::from_be_bytes([b[pos], b[pos + 1], b[pos + 2], b[pos + 3]]);
            for v in count_values(exact) {
                single.push((pos, v));
                let mut m = b.to_vec();
                m[pos..pos + 4].copy_from_slice(&v.to_be_bytes());
                out.push((format!("count@{}={}", pos, v), m));
            }
        }
    }
    // pairs of header counts
    for (i, (p1, v1)) in single.iter().enumerate() {
        for (p2, v2) in single.iter().skip(i + 1) {
            if p1 != p2 && (v1 % 7 + v2 % 5) % 3 == 0 {
                let mut m = b.to_vec();
                m[*p1..*p1 + 4].copy_from_slice(&v1.to_be_bytes());
                m[*p2..*p2 + 4].copy_from_slice(&v2.to_be_bytes());
                out.push((format!("counts@{}={},@{}={}", p1, v1, p2, v2), m));
            }
        }
    }
    // version byte of both headers
    for h in &hdrs {
        for v in 0..=255u8 {
            let mut m = b.to_vec();
            m[h + 4] = v;
            out.push((format!("version@{}={}", h + 4, v), m));
        }
    }
    // every byte: every other value (the complete single-byte fault space)
    for pos in 0..b.len() {
        for v in 0..=255u8 {
            if b[pos] != v {
                let mut m = b.to_vec();
                m[pos] = v;
                out.push((format!("byte@{}={:#x}", pos, v), m));
            }
        }
    }
    // appended garbage and doubled file
    let mut m = b.to_vec();
    m.extend_from_slice(b"\nXYZ");
    out.push(("append-garbage".into(), m));
    let mut m = b.to_vec();
    m.extend_from_slice(b);
    out.push(("doubled".into(), m));
    out
}

/// footers from a mutated POSIX-TZ grammar
pub fn hostile_footers(thorough: bool) -> Vec<String> {
    let desig = ["A", "ABC", "<+03>", "<", "<>", "", "é", "AB1"];
    let offs = ["0", "24", "25", "-24:59:59", "1:60", "+", "10000000000", "-1", "1:2:3"];
    let mut rules: Vec<String> = vec![];
    for m in [0, 1, 12, 13, 255, 256] {
        for w in [0, 1, 5, 6] {
            for d in [0, 6, 7] {
                rules.push(format!("M{}.{}.{}", m, w, d));
            }
        }
    }
    for n in [0u64, 1, 59, 60, 365, 366] {
        rules.push(format!("J{}", n));
    }
    for n in ["0", "364", "365", "366", "10000000000", "100000000000000000000"] {
        rules.push(n.to_string());
    }
    rules.extend(["M3", "M3.", "M3.5", "M3.5.", "M.5.0", "M3..0", "J", "Jx", "M-3.1.0", "M3.-1.0", "M3.1.-0", "X1.1.1"].iter().map(|s| s.to_string()));
    let times = ["", "/-1", "/24", "/25", "/167", "/168", "/-167", "/-168", "/99999999999", "/1:60", "/", "/+", "/2:00:60"];
    let mut v = vec![];
    for d in desig {
        for o in offs {
            v.push(format!("{}{}", d, o));
            v.push(format!("{}{}{}", d, o, "DST"));
            v.push(format!("{}{}DST,M3.5.0", d, o));
        }
    }
    for (i, r1) in rules.iter().enumerate() {
        for (j, r2) in rules.iter().enumerate() {
            // every rule in each position with a sane partner, and a diagonal of hostile pairs
            if !thorough && !(r2 == "M10.5.0" || r1 == "M3.2.0" || (i + j) % 11 == 0) && !(j == 0 || i == 0) {
                continue;
            }
            for (k, t) in times.iter().enumerate() {
                if thorough || (i + j + k) % 3 == 0 || r1.starts_with("M3.5") || t.is_empty() {
                    v.push(format!("CET-1CEST,{}{},{}", r1, t, r2));
                    v.push(format!("CET-1CEST,{},{}{}", r1, r2, t));
                }
            }
        }
    }
    for r in &rules {
        for t in times {
            v.push(format!("CET-1CEST,{}{},M10.5.0", r, t));
            v.push(format!("CET-1CEST,M3.5.0,{}{}", r, t));
            v.push(format!("AEST-10AEDT,M10.1.0,{}{}", r, t));
        }
    }
    for extra in ["CET-1CEST", "CET-1CEST,", "CET-1CEST,M3.5.0", "CET-1CEST,M3.5.0,", "CET-1CEST,M3.5.0,M10.5.0,", "CET-1CEST,M3.5.0,M10.5.0 ", "CET-1CEST M3.5.0 M10.5.0", ":Europe/Berlin", "CET-1CEST,M3.5.0,M10.5.0\0", "\n\n", "CET-1CEST-2,M3.5.0,M10.5.0", "CET-1CEST-25,M3.5.0,M10.5.0"] {
        v.push(extra.to_string());
    }
    v.sort();
    v.dedup();
    v
}

/// the i-th string (shortest first) over the alphabet
fn nth_string(alpha: &[char], mut i: u64) -> String {
    let k = alpha.len() as u64;
    let mut len = 0u32;
    while i >= k.pow(len) {
        i -= k.pow(len);
        len += 1;
    }
    let mut out = vec![' '; len as usize];
    for pos in (0..len as usize).rev() {
        out[pos] = alpha[(i % k) as usize];
        i /= k;
    }
    out.into_iter().collect()
}

fn spaces(thorough: bool) -> Vec<(String, u64, String, Box<dyn Fn(u64, &mut Acc) + Sync>)> {
    let mut v: Vec<(String, u64, String, Box<dyn Fn(u64, &mut Acc) + Sync>)> = vec![];
    for (label, b) in bases() {
        let faults = structural_faults(&b, thorough);
        let n = faults.len() as u64;
        let l2 = label.clone();
        v.push((format!("structural faults of base file {} ({} bytes)", label, b.len()), n + 1, "every truncation, every header count x 8 values (and pairs), version byte x 256, every byte x every other value, appended garbage; looked up at every base transition instant +-1 s and at +-2^k".into(), Box::new(move |i, acc| {
            if i == n {
                case_bytes(&format!("{}:unchanged", l2), &b, true, acc);
            } else {
                let (fl, fb) = &faults[i as usize];
                case_bytes(&format!("{}:{}", l2, fl), fb, i % 16 == 0, acc);
            }
        })));
    }
    let foot = hostile_footers(thorough);
    let nf = foot.len() as u64;
    v.push(("footers from a mutated POSIX-TZ grammar x {v2, v3} x {no table, table}".into(), nf * 4, "impossible months / weeks / days, J0, J366, n365, oversized numbers, times beyond the v2 / v3 limits, missing commas, trailing garbage".into(), Box::new(move |i, acc| {
        let f = &foot[(i / 4) as usize];
        let ver = if i % 2 == 0 { 2 } else { 3 };
        let table = if i / 2 % 2 == 0 { vec![] } else { vec![(0i64, 1usize)] };
        let b = rz::write_tzif(&zone(ver, table, f));
        case_bytes(&format!("footer v{} {:?}", ver, f), &b, i % 8 == 0, acc);
    })));
    // every string over a small alphabet, up to a length, in each numeric position of the footer
    // (an enumeration rather than a menu: nothing about the shape of the fault is assumed)
    let num_alpha: Vec<char> = if thorough { vec!['0', '1', '2', '6', '9', ':', '-', '+'] } else { vec!['0', '1', '6', ':', '-', '+'] };
    let num_len = if thorough { 8u32 } else { 7 };
    let slots: [(&str, &str); 4] = [("A", ""), ("CET-1CEST", ",M3.5.0,M10.5.0"), ("CET-1CEST,M3.5.0/", ",M10.5.0"), ("CET-1CEST,M3.5.0,M10.5.0/", "")];
    let per_slot: u64 = (0..=num_len).map(|l| (num_alpha.len() as u64).pow(l)).sum();
    v.push((format!("every string of length <= {} over {:?} in each numeric footer slot (std offset, dst offset, both rule times)", num_len, num_alpha.iter().collect::<String>()), per_slot * slots.len() as u64, "offsets and times with any number of ':' fields, signs in any place, empty fields, leading zeros, two-digit overflows".into(), Box::new(move |i, acc| {
        let (pre, post) = slots[(i / per_slot) as usize];
        let text = nth_string(&num_alpha, i % per_slot);
        let b = rz::write_tzif(&zone(if i % 2 == 0 { 2 } else { 3 }, vec![], &format!("{}{}{}", pre, text, post)));
        case_bytes(&format!("footer slot {:?}+{:?}+{:?}", pre, text, post), &b, i % 64 == 0, acc);
    })));
    let rule_alpha: Vec<char> = if thorough { vec!['M', 'J', '0', '1', '3', '5', '7', '.', '/', '-'] } else { vec!['M', 'J', '0', '1', '5', '.', '/'] };
    let rule_len = if thorough { 7u32 } else { 6 };
    let per_rule: u64 = (0..=rule_len).map(|l| (rule_alpha.len() as u64).pow(l)).sum();
    v.push((format!("every string of length <= {} over {:?} as the first and as the second transition rule", rule_len, rule_alpha.iter().collect::<String>()), per_rule * 2, "rule kinds, dots, slashes and numbers in any arrangement".into(), Box::new(move |i, acc| {
        let text = nth_string(&rule_alpha, i % per_rule);
        let footer = if i / per_rule == 0 { format!("CET-1CEST,{},M10.5.0", text) } else { format!("CET-1CEST,M3.5.0,{}", text) };
        let b = rz::write_tzif(&zone(2, vec![], &footer));
        case_bytes(&format!("footer rule {:?}", footer), &b, i % 64 == 0, acc);
    })));
    // valid multi-byte characters (the footer only has to be UTF-8): substituted for, and inserted
    // before, every character of well-formed footers of every shape
    let shapes: Vec<&'static str> = vec!["CET-1", "<+0330>-3:30", "CET-1CEST,M3.5.0,M10.5.0/3", "EST5EDT4,M3.2.0/2:00:00,M11.1.0/-1", "<-03>3<-02>,J60/0,J300/1:30", "AEST-10AEDT,280,89/26", "IST-1GMT0,M10.5.0,M3.5.0/1"];
    let wide: [char; 5] = ['\u{e9}', '\u{20ac}', '\u{1f600}', '\u{ff10}', '\u{660}'];
    let mut mb: Vec<String> = vec![];
    for f in &shapes {
        let chars: Vec<char> = f.chars().collect();
        for pos in 0..=chars.len() {
            for w in wide {
                let mut ins = chars.clone();
                ins.insert(pos, w);
                mb.push(ins.into_iter().collect());
                if pos < chars.len() {
                    let mut sub = chars.clone();
                    sub[pos] = w;
                    mb.push(sub.into_iter().collect());
                }
            }
        }
    }
    let nmb = mb.len() as u64;
    v.push(("multi-byte characters: every position of 7 well-formed footers x {substitute, insert} x 5 characters (2-, 3-, 4-byte, full-width and Arabic-Indic digits) x {v2, v3}".into(), nmb * 2, "the footer is valid UTF-8 but not ASCII: byte-wise readers must not split a character".into(), Box::new(move |i, acc| {
        let f = &mb[(i / 2) as usize];
        let b = rz::write_tzif(&zone(if i % 2 == 0 { 2 } else { 3 }, vec![], f));
        case_bytes(&format!("footer multibyte {:?}", f), &b, true, acc);
    })));
    let junk: Vec<Vec<u8>> = vec![vec![], b"TZif".to_vec(), b"TZif2".to_vec(), vec![0; 44], vec![0xff; 100], b"TZif3\0\0\0\0\0\0\0\0\0\0\0\0\0\0\0".to_vec(), b"not a tz file at all".to_vec()];
    v.push(("non-TZif byte strings".into(), junk.len() as u64, "".into(), Box::new(move |i, acc| case_bytes("junk", &junk[i as usize], true, acc))));
    v
}

pub fn run(ctx: &Ctx) -> i32 {
    let mut rep = Report::new(ctx);
    rep.rule = "evaluations = byte strings offered to the TZif entry point (each followed by 17 lookups across the DateTime range when it parses, and Offset::Local with /etc/localtime replaced on a 1/16 subset); outcome class must be 'error' or 'offsets for every lookup', never a panic, abort or hang; non-trivial = inputs that are rejected".into();
    rep.assumptions = vec!["multi-fault combinations beyond pairs of header counts, and byte strings not within two faults of a valid file, are not reached".into(), "the run executes in a supervised child process".into()];
    if ctx.trace.is_none() {
        rep.require(&["accepted-and-all-lookups-answered", "rejected-with-error", "offset-local-resolved"]);
    }
    for (name, n, note, body) in spaces(ctx.thorough) {
        rep.sweep(&name, n, &note, |i, acc| body(i, acc));
    }
    rep.finish()
}

pub fn replay(_op: &str, case: &Value, acc: &mut Acc) -> bool {
    match case["kind"].as_str() {
        Some("anchor") => {
            let b = unhex(case["hex"].as_str().unwrap());
            case_bytes(case["label"].as_str().unwrap_or(""), &b, true, acc)
        }
        Some("bytes") => case_bytes(case["label"].as_str().unwrap_or(""), &unhex(case["hex"].as_str().unwrap()), false, acc),
        Some("local") => case_bytes(case["label"].as_str().unwrap_or(""), &unhex(case["hex"].as_str().unwrap()), true, acc),
        Some("indexed") => {
            for (name, _, _, body) in spaces(case["tier"].as_str() == Some("thorough")) {
                if Some(name.as_str()) == case["space"].as_str() {
                    body(case["index"].as_u64().unwrap_or(0), acc);
                }
            }
        }
        _ => return false,
    }
    true
}
