//! C15 — fallible constructors accept exactly the valid inputs, reject the rest with a truthful
//! OutOfRange message (E1: full cross product of boundary alphabets, complete u32/i32 axes).
use crate::alphabets as ab;
use crate::engine::{call, Acc, Ctx, Out, Report, PROFILE};
use crate::real::dt_from;
use crate::refmodel::calendar as cal;
use crate::refmodel::instant as ins;
use astrolabe::errors::AstrolabeError;
use astrolabe::{Date, DateTime, DateUtilities, Offset, Time, TimeUtilities, OffsetUtilities};
use serde_json::{json, Value};

/// outcome of a fallible call reduced to what the property talks about
#[derive(Debug, Clone, PartialEq)]
enum R<T> {
    Ok(T),
    Oor(String),
    OtherErr(String),
    Panic(String),
}

fn attempt<T>(f: impl FnOnce() -> Result<T, AstrolabeError>) -> R<T> {
    match call(f) {
        Out::Val(Ok(v)) => R::Ok(v),
        Out::Val(Err(AstrolabeError::OutOfRange(e))) => R::Oor(e.to_string()),
        Out::Val(Err(e)) => R::OtherErr(e.to_string()),
        Out::Panic(p) => R::Panic(p),
        Out::Err(e) => R::OtherErr(e),
    }
}

/// "<name> must be in the range A..=B[, ...]" -> (name, A, B)
fn stated_range(msg: &str) -> Option<(String, i128, i128)> {
    let key = " must be in the range ";
    let p = msg.find(key)?;
    let name = msg[..p].to_string();
    let rest = &msg[p + key.len()..];
    let rest = rest.split(',').next()?;
    let mut it = rest.split("..=");
    let a = it.next()?.trim().parse::<i128>().ok()?;
    let b = it.next()?.trim().parse::<i128>().ok()?;
    Some((name, a, b))
}

/// Judge a refusal: must be OutOfRange; if the message states a range for parameter `name`, the
/// rejected value of that parameter is outside it and every value in `domain` that `accepts`
/// (other arguments unchanged) is inside it.
fn judge_refusal<T: std::fmt::Debug>(
    op: &str,
    case: &Value,
    got: &R<T>,
    value_of: impl Fn(&str) -> Option<i128>,
    domain_of: impl Fn(&str) -> Vec<i128>,
    accepts: impl Fn(&str, i128) -> bool,
    acc: &mut Acc,
) {
    match got {
        R::Oor(msg) => {
            acc.branch("refused");
            if let Some((name, a, b)) = stated_range(msg) {
                acc.branch("refused-with-stated-range");
                match value_of(&name) {
                    None => acc.violation(op, "message-names-unknown-parameter", case.clone(), "a parameter of the call".into(), msg.clone()),
                    Some(v) => {
                        if (a..=b).contains(&v) {
                            acc.violation(op, &format!("message-range-includes-rejected-{}", name.replace(' ', "_")), case.clone(), format!("range excluding {}", v), msg.clone());
                        }
                        for x in domain_of(&name) {
                            acc.transitions += 1;
                            if (a..=b).contains(&x) {
                                continue;
                            }
                            // the probe is a real constructor / setter call: it must not panic either
                            match call(std::panic::AssertUnwindSafe(|| accepts(&name, x))) {
                                Out::Val(true) => {
                                    acc.violation(op, &format!("message-range-excludes-accepted-{}", name.replace(' ', "_")), case.clone(), format!("range containing accepted {}={}", name, x), msg.clone());
                                    break;
                                }
                                Out::Val(false) => {}
                                other => {
                                    acc.violation(op, "panic-for-another-value-of-the-named-parameter", json!({"probe_of": case, "parameter": name, "value": x.to_string()}), "Ok or Err(OutOfRange)".into(), other.show());
                                    break;
                                }
                            }
                        }
                    }
                }
            } else {
                acc.branch("refused-custom-message");
            }
        }
        other => acc.violation(op, "invalid-input-not-refused-with-OutOfRange", case.clone(), "Err(OutOfRange)".into(), format!("{:?}", other)),
    }
}

fn small_domain(max: i128) -> Vec<i128> {
    let mut v: Vec<i128> = (0..=max + 3).collect();
    v.extend([(1i128 << 31) - 1, 1 << 31, (1 << 32) - 1]);
    v
}

fn year_domain() -> Vec<i128> {
    let mut v: Vec<i128> = ab::landmark_years().iter().map(|&y| y as i128).collect();
    v.extend([0, -5_879_612, 5_879_612, i32::MIN as i128, i32::MAX as i128, -3, 3, 8, -9]);
    v
}

fn date_domain(name: &str) -> Vec<i128> {
    match name {
        "year" => year_domain(),
        "month" => small_domain(12),
        "day" => small_domain(31),
        "hour" => small_domain(23),
        "minute" | "second" => small_domain(59),
        _ => vec![],
    }
}

// ---------------------------------------------------------------- from_ymd / from_ymdhms

fn case_ymdhms(which: u8, y: i32, m: u32, d: u32, h: u32, mi: u32, s: u32, acc: &mut Acc) {
    case_ymdhms_inner(which, y, m, d, h, mi, s, acc);
    if crate::props::anchor::hash(&[which as u64, y as u64, m as u64, d as u64, h as u64, mi as u64, s as u64]) % 8 == 0 {
        crate::props::anchor::values(acc, "constructors (purity probe)", &|| json!({"kind": "ymdhms", "which": which, "args": [y, m, d, h, mi, s]}));
    }
}

fn case_ymdhms_inner(which: u8, y: i32, m: u32, d: u32, h: u32, mi: u32, s: u32, acc: &mut Acc) {
    acc.transitions += 1;
    acc.states += 1;
    let case = json!({"kind": "ymdhms", "which": which, "args": [y, m, d, h, mi, s]});
    let valid = cal::valid_day(y as i64, m, d).is_some() && (which != 2 || (h <= 23 && mi <= 59 && s <= 59));
    let (op, got): (&str, R<(i32, u32, u32, u32, u32, u32)>) = match which {
        0 => ("Date::from_ymd", attempt(|| Date::from_ymd(y, m, d).map(|v| { let (a, b, c) = v.as_ymd(); (a, b, c, 0, 0, 0) }))),
        1 => ("DateTime::from_ymd", attempt(|| DateTime::from_ymd(y, m, d).map(|v| v.as_ymdhms()))),
        _ => ("DateTime::from_ymdhms", attempt(|| DateTime::from_ymdhms(y, m, d, h, mi, s).map(|v| v.as_ymdhms()))),
    };
    let args = if which == 2 { (y, m, d, h, mi, s) } else { (y, m, d, 0, 0, 0) };
    if valid {
        acc.branch("accepted");
        match &got {
            R::Ok(v) if *v == args => {}
            other => acc.violation(op, "valid-input-not-read-back", case, format!("Ok reading back {:?}", args), format!("{:?}", other)),
        }
    } else {
        acc.nontrivial += 1;
        let value_of = |n: &str| -> Option<i128> {
            Some(match n {
                "year" => y as i128,
                "month" => m as i128,
                "day" => d as i128,
                "hour" if which == 2 => h as i128,
                "minute" if which == 2 => mi as i128,
                "second" if which == 2 => s as i128,
                _ => return None,
            })
        };
        let accepts = |n: &str, x: i128| -> bool {
            let (mut y2, mut m2, mut d2, mut h2, mut mi2, mut s2) = (y as i128, m as i128, d as i128, h as i128, mi as i128, s as i128);
            match n {
                "year" => y2 = x,
                "month" => m2 = x,
                "day" => d2 = x,
                "hour" => h2 = x,
                "minute" => mi2 = x,
                _ => s2 = x,
            }
            let r = match which {
                0 => call(|| Date::from_ymd(y2 as i32, m2 as u32, d2 as u32).is_ok()),
                1 => call(|| DateTime::from_ymd(y2 as i32, m2 as u32, d2 as u32).is_ok()),
                _ => call(|| DateTime::from_ymdhms(y2 as i32, m2 as u32, d2 as u32, h2 as u32, mi2 as u32, s2 as u32).is_ok()),
            };
            matches!(r, Out::Val(true))
        };
        judge_refusal(op, &case, &got, value_of, date_domain, accepts, acc);
    }
}

// ---------------------------------------------------------------- from_hms

fn case_hms(which: u8, h: u32, mi: u32, s: u32, acc: &mut Acc) {
    acc.transitions += 1;
    acc.states += 1;
    let case = json!({"kind": "hms", "which": which, "args": [h, mi, s]});
    let valid = h <= 23 && mi <= 59 && s <= 59;
    let (op, got): (&str, R<(u32, u32, u32, u64)>) = match which {
        0 => ("Time::from_hms", attempt(|| Time::from_hms(h, mi, s).map(|v| { let (a, b, c) = v.as_hms(); (a, b, c, v.as_nanos()) }))),
        _ => ("DateTime::from_hms", attempt(|| DateTime::from_hms(h, mi, s).map(|v| { let (a, b, c) = v.as_hms(); (a, b, c, (a as u64 * 3600 + b as u64 * 60 + c as u64) * 1_000_000_000 + v.nano() as u64) }))),
    };
    if valid {
        acc.branch("accepted");
        let exp = (h, mi, s, (h as u64 * 3600 + mi as u64 * 60 + s as u64) * 1_000_000_000);
        match &got {
            R::Ok(v) if *v == exp => {}
            other => acc.violation(op, "valid-input-not-read-back", case, format!("{:?}", exp), format!("{:?}", other)),
        }
    } else {
        acc.nontrivial += 1;
        let value_of = |n: &str| match n {
            "hour" => Some(h as i128),
            "minute" => Some(mi as i128),
            "second" => Some(s as i128),
            _ => None,
        };
        let accepts = |n: &str, x: i128| {
            let (h2, m2, s2) = match n {
                "hour" => (x as u32, mi, s),
                "minute" => (h, x as u32, s),
                _ => (h, mi, x as u32),
            };
            match which {
                0 => matches!(call(|| Time::from_hms(h2, m2, s2).is_ok()), Out::Val(true)),
                _ => matches!(call(|| DateTime::from_hms(h2, m2, s2).is_ok()), Out::Val(true)),
            }
        };
        judge_refusal(op, &case, &got, value_of, date_domain, accepts, acc);
    }
}

// ---------------------------------------------------------------- from_seconds / from_nanos / Offset

fn case_time_from_seconds(sec: u32, judge_msg: bool, acc: &mut Acc) {
    acc.transitions += 1;
    acc.states += 1;
    let got = call(|| Time::from_seconds(sec).map(|t| (t.as_seconds(), t.as_nanos())));
    let case = || json!({"kind": "time_from_seconds", "sec": sec});
    if sec < 86_400 {
        acc.branch("accepted");
        match &got {
            Out::Val(Ok((s, n))) if *s == sec && *n == sec as u64 * 1_000_000_000 => {}
            other => acc.violation("Time::from_seconds", "valid-input-not-read-back", case(), format!("Ok({})", sec), format!("{:?}", other)),
        }
    } else {
        acc.nontrivial += 1;
        match &got {
            Out::Val(Err(AstrolabeError::OutOfRange(e))) => {
                acc.branch("refused");
                if judge_msg {
                    let r: R<()> = R::Oor(e.to_string());
                    judge_refusal("Time::from_seconds", &case(), &r, |n| if n == "seconds" { Some(sec as i128) } else { None }, |_| vec![0, 1, 86_398, 86_399, 86_400, 86_401, u32::MAX as i128], |_, x| Time::from_seconds(x as u32).is_ok(), acc);
                }
            }
            other => acc.violation("Time::from_seconds", "invalid-input-not-refused-with-OutOfRange", case(), "Err(OutOfRange)".into(), format!("{:?}", other)),
        }
    }
}

fn case_time_from_nanos(n: u64, acc: &mut Acc) {
    acc.transitions += 1;
    acc.states += 1;
    let case = json!({"kind": "time_from_nanos", "n": n.to_string()});
    let got = attempt(|| Time::from_nanos(n).map(|t| t.as_nanos()));
    if n < ab::DAY_NS {
        acc.branch("accepted");
        if got != R::Ok(n) {
            acc.violation("Time::from_nanos", "valid-input-not-read-back", case, format!("Ok({})", n), format!("{:?}", got));
        }
    } else {
        acc.nontrivial += 1;
        judge_refusal("Time::from_nanos", &case, &got, |nm| if nm == "nanoseconds" { Some(n as i128) } else { None }, |_| vec![0, 1, ab::DAY_NS as i128 - 1, ab::DAY_NS as i128, u64::MAX as i128], |_, x| Time::from_nanos(x as u64).is_ok(), acc);
    }
}

fn case_offset_from_seconds(sec: i32, judge_msg: bool, acc: &mut Acc) {
    acc.transitions += 1;
    acc.states += 1;
    let got = call(|| Offset::from_seconds(sec).map(|o| (o.resolve(), o.resolve_hms())));
    let case = || json!({"kind": "offset_from_seconds", "sec": sec});
    if sec > -86_400 && sec < 86_400 {
        acc.branch("accepted");
        let a = sec.unsigned_abs();
        let exp_hms = (sec / 3600, a % 3600 / 60, a % 60);
        match &got {
            Out::Val(Ok((s, hms))) if *s == sec && *hms == exp_hms => {}
            other => acc.violation("Offset::from_seconds", "valid-input-not-read-back", case(), format!("Ok({}, {:?})", sec, exp_hms), format!("{:?}", other)),
        }
    } else {
        acc.nontrivial += 1;
        match &got {
            Out::Val(Err(AstrolabeError::OutOfRange(e))) => {
                acc.branch("refused");
                if judge_msg {
                    let r: R<()> = R::Oor(e.to_string());
                    judge_refusal("Offset::from_seconds", &case(), &r, |n| if n == "seconds" { Some(sec as i128) } else { None }, |_| vec![-86_401, -86_400, -86_399, -1, 0, 1, 86_399, 86_400, i32::MIN as i128, i32::MAX as i128], |_, x| Offset::from_seconds(x as i32).is_ok(), acc);
                }
            }
            other => acc.violation("Offset::from_seconds", "invalid-input-not-refused-with-OutOfRange", case(), "Err(OutOfRange)".into(), format!("{:?}", other)),
        }
    }
}

fn case_offset_from_hms(h: i32, mi: u32, s: u32, acc: &mut Acc) {
    acc.transitions += 1;
    acc.states += 1;
    let case = json!({"kind": "offset_from_hms", "args": [h, mi, s]});
    let got = attempt(|| Offset::from_hms(h, mi, s).map(|o| o.resolve()));
    let valid = (-23..=23).contains(&h) && mi <= 59 && s <= 59;
    if valid {
        acc.branch("accepted");
        let mag = h.unsigned_abs() as i32 * 3600 + mi as i32 * 60 + s as i32;
        let exp = if h < 0 { -mag } else { mag };
        if got != R::Ok(exp) {
            acc.violation("Offset::from_hms", "valid-input-not-read-back", case, format!("Ok({})", exp), format!("{:?}", got));
        }
    } else {
        acc.nontrivial += 1;
        let value_of = |n: &str| match n {
            "hour" => Some(h as i128),
            "minute" => Some(mi as i128),
            "second" => Some(s as i128),
            _ => None,
        };
        let domain = |n: &str| -> Vec<i128> {
            if n == "hour" {
                let mut v: Vec<i128> = (-26..=26).collect();
                v.extend([i32::MIN as i128, i32::MAX as i128]);
                v
            } else {
                small_domain(59)
            }
        };
        let accepts = |n: &str, x: i128| {
            let (h2, m2, s2) = match n {
                "hour" => (x as i32, mi, s),
                "minute" => (h, x as u32, s),
                _ => (h, mi, x as u32),
            };
            matches!(call(|| Offset::from_hms(h2, m2, s2).is_ok()), Out::Val(true))
        };
        judge_refusal("Offset::from_hms", &case, &got, value_of, domain, accepts, acc);
    }
}

// ---------------------------------------------------------------- setters (offset 0; C09 covers offsets)

const SETTERS: [&str; 10] = ["year", "month", "day", "day_of_year", "hour", "minute", "second", "milli", "micro", "nano"];

/// ty: 0 Date, 1 Time, 2 DateTime. `v` is the raw argument (i32 reinterpretation for set_year)
fn case_setter(ty: u8, setter: usize, day: i64, nod: u64, v: i64, acc: &mut Acc) {
    case_setter_inner(ty, setter, day, nod, v, acc);
    if crate::props::anchor::hash(&[ty as u64, setter as u64, day as u64, nod, v as u64]) % 8 == 0 {
        crate::props::anchor::values(acc, "setters (purity probe)", &|| json!({"kind": "setter", "ty": ty, "setter": setter, "day": day, "nod": nod.to_string(), "v": v}));
    }
}

fn case_setter_inner(ty: u8, setter: usize, day: i64, nod: u64, v: i64, acc: &mut Acc) {
    let name = SETTERS[setter];
    if (ty == 0 && setter >= 4) || (ty == 1 && setter < 4) {
        return;
    }
    acc.transitions += 1;
    acc.states += 1;
    let case = json!({"kind": "setter", "ty": ty, "setter": setter, "day": day, "nod": nod.to_string(), "v": v});
    let f = ins::decompose(ins::join(day, nod));
    // reference: resulting (day, nod) or None
    let expect: Option<(i64, u64)> = match setter {
        0 => cal::valid_day(v, f.month, f.dom).map(|d| (d, nod)),
        1 => (v >= 0).then(|| cal::valid_day(f.year, v as u32, f.dom)).flatten().map(|d| (d, nod)),
        2 => (v >= 0).then(|| cal::valid_day(f.year, f.month, v as u32)).flatten().map(|d| (d, nod)),
        3 => {
            let a = cal::astro(f.year).unwrap();
            let t = cal::days_from_civil(a, 1, 1) + v - 1;
            (v >= 1 && v <= cal::year_len(a) as i64 && (cal::MIN_DAY..=cal::MAX_DAY).contains(&t)).then_some((t, nod))
        }
        4 => (v <= 23).then(|| (day, nod % 3_600_000_000_000 + v as u64 * 3_600_000_000_000)),
        5 => (v <= 59).then(|| (day, nod - (f.minute as u64) * 60_000_000_000 + v as u64 * 60_000_000_000)),
        6 => (v <= 59).then(|| (day, nod - (f.second as u64) * 1_000_000_000 + v as u64 * 1_000_000_000)),
        7 => (v <= 999).then(|| (day, nod - (f.sub as u64) + v as u64 * 1_000_000 + f.sub as u64 % 1_000_000)),
        8 => (v <= 999_999).then(|| (day, nod - (f.sub as u64) + v as u64 * 1_000 + f.sub as u64 % 1_000)),
        _ => (v <= 999_999_999).then(|| (day, nod - (f.sub as u64) + v as u64)),
    };
    let tyname = ["Date", "Time", "DateTime"][ty as usize];
    let op = format!("{}::set_{}", tyname, name);
    // run the real setter; observe (day, nod) of the result
    let got: R<(i64, u64)> = match ty {
        0 => {
            let d0 = Date::from_timestamp((day - cal::DAYS_TO_1970) * 86_400);
            attempt(|| {
                let r = match setter {
                    0 => d0.set_year(v as i32),
                    1 => d0.set_month(v as u32),
                    2 => d0.set_day(v as u32),
                    _ => d0.set_day_of_year(v as u32),
                };
                r.map(|x| (x.timestamp().div_euclid(86_400) + cal::DAYS_TO_1970, nod))
            })
        }
        1 => {
            let t0 = Time::from_nanos(nod).unwrap();
            attempt(|| {
                let r = match setter {
                    4 => t0.set_hour(v as u32),
                    5 => t0.set_minute(v as u32),
                    6 => t0.set_second(v as u32),
                    7 => t0.set_milli(v as u32),
                    8 => t0.set_micro(v as u32),
                    _ => t0.set_nano(v as u32),
                };
                r.map(|x| (day, x.as_nanos()))
            })
        }
        _ => {
            let x0 = match dt_from(day, nod) {
                Some(x) => x,
                None => {
                    acc.branch("construct-failed");
                    return;
                }
            };
            attempt(|| {
                let r = match setter {
                    0 => x0.set_year(v as i32),
                    1 => x0.set_month(v as u32),
                    2 => x0.set_day(v as u32),
                    3 => x0.set_day_of_year(v as u32),
                    4 => x0.set_hour(v as u32),
                    5 => x0.set_minute(v as u32),
                    6 => x0.set_second(v as u32),
                    7 => x0.set_milli(v as u32),
                    8 => x0.set_micro(v as u32),
                    _ => x0.set_nano(v as u32),
                };
                r.map(|x| {
                    let i = (x.timestamp() as i128 + cal::DAYS_TO_1970 as i128 * 86_400) * ins::NS + x.nano() as i128;
                    ins::split(i)
                })
            })
        }
    };
    match expect {
        Some(e) => {
            acc.branch("accepted");
            if got != R::Ok(e) {
                acc.violation(&op, "valid-input-not-read-back", case, format!("Ok{:?}", e), format!("{:?}", got));
            }
        }
        None => {
            acc.nontrivial += 1;
            // candidate date after replacing the field (for messages that name a date field)
            let cand = |n: &str| -> Option<(i128, i128, i128)> {
                let (mut y, mut m, mut d) = (f.year as i128, f.month as i128, f.dom as i128);
                match setter {
                    0 => y = v as i128,
                    1 => m = v as i128,
                    2 => d = v as i128,
                    _ => return None,
                }
                let _ = n;
                Some((y, m, d))
            };
            let value_of = |n: &str| -> Option<i128> {
                match (n, setter) {
                    ("value", 4..=9) => Some(v as i128),
                    ("day of year", 3) => Some(v as i128),
                    ("year", 0..=2) => cand(n).map(|c| c.0),
                    ("month", 0..=2) => cand(n).map(|c| c.1),
                    ("day", 0..=2) => cand(n).map(|c| c.2),
                    ("year", 3) => Some(f.year as i128),
                    _ => None,
                }
            };
            let domain = |n: &str| -> Vec<i128> {
                match (n, setter) {
                    ("value", 4) => small_domain(23),
                    ("value", 5) | ("value", 6) => small_domain(59),
                    ("value", 7) => small_domain(999),
                    ("value", 8) => vec![0, 1, 999_998, 999_999, 1_000_000, 1_000_001, u32::MAX as i128],
                    ("value", _) => vec![0, 1, 999_999_998, 999_999_999, 1_000_000_000, 1_000_000_001, u32::MAX as i128],
                    ("day of year", _) => small_domain(366),
                    _ => date_domain(n),
                }
            };
            let accepts = |n: &str, x: i128| -> bool {
                match (n, setter) {
                    ("value", _) | ("day of year", _) => {
                        // same setter, other argument value, same receiver
                        let mut a2 = Acc::default();
                        let probe = probe_setter(ty, setter, day, nod, x as i64);
                        let _ = &mut a2;
                        probe
                    }
                    _ => {
                        let (y, m, d) = match cand(n) {
                            Some(c) => c,
                            None => return false,
                        };
                        let (y, m, d) = match n {
                            "year" => (x, m, d),
                            "month" => (y, x, d),
                            _ => (y, m, x),
                        };
                        matches!(call(|| Date::from_ymd(y as i32, m as u32, d as u32).is_ok()), Out::Val(true))
                    }
                }
            };
            judge_refusal(&op, &case, &got, value_of, domain, accepts, acc);
        }
    }
}

/// date setters on a DateTime under an offset (local year / month may differ from the UTC one):
/// Ok iff the *local* candidate date is valid, Err is OutOfRange, an Ok value reads the argument back
fn case_setter_offset(day: i64, nod: u64, off: i32, setter: usize, v: i64, acc: &mut Acc) {
    use crate::refmodel::fields;
    let local = ins::join(day, nod) + off as i128 * ins::NS;
    if local < ins::MIN_INSTANT + 2 * ins::DAY || local > ins::MAX_INSTANT - 2 * ins::DAY {
        return;
    }
    let x = match crate::real::dt_from_off(day, nod, off) {
        Some(x) => x,
        None => return,
    };
    acc.transitions += 1;
    acc.states += 1;
    let expect = fields::set_field(local, setter, v);
    if let Some(l2) = expect {
        if l2 < ins::MIN_INSTANT + 2 * ins::DAY || l2 > ins::MAX_INSTANT - 2 * ins::DAY {
            return;
        }
    }
    let got: R<i64> = attempt(|| {
        let r = match setter {
            0 => x.set_year(v as i32),
            1 => x.set_month(v as u32),
            2 => x.set_day(v as u32),
            _ => x.set_day_of_year(v as u32),
        };
        r.map(|y| match setter {
            0 => y.year() as i64,
            1 => y.month() as i64,
            2 => y.day() as i64,
            _ => y.day_of_year() as i64,
        })
    });
    let case = json!({"kind": "setter_offset", "setter": setter, "day": day, "nod": nod.to_string(), "off": off, "v": v});
    let op = format!("DateTime::set_{}", SETTERS[setter]);
    match (expect, &got) {
        (Some(_), R::Ok(g)) if *g == v => acc.branch("accepted"),
        (None, R::Oor(_)) => {
            acc.branch("refused");
            acc.nontrivial += 1;
        }
        (Some(_), other) => acc.violation(&op, "valid-local-value-not-accepted-under-offset", case, format!("Ok reading back {}", v), format!("{:?}", other)),
        (None, other) => acc.violation(&op, "invalid-local-value-not-refused-under-offset", case, "Err(OutOfRange)".into(), format!("{:?}", other)),
    }
}


/// clock setters on a Time / DateTime that carries an offset, with the receiver chosen by its
/// *local* time of day (so that exact local midnight, the last nanosecond of the local day and the
/// wrap in both directions are all met)
fn case_clock_setter_offset(ty: u8, day: i64, local_nod: u64, off: i32, setter: usize, v: i64, acc: &mut Acc) {
    use crate::refmodel::fields;
    let local = ins::join(day, local_nod);
    let utc = local - off as i128 * ins::NS;
    let (uday, unod) = ins::split(utc);
    let case = json!({"kind": "clock_setter_offset", "ty": ty, "setter": setter, "day": day, "local_nod": local_nod.to_string(), "off": off, "v": v});
    let expect = fields::set_field(local, setter, v);
    let tyname = ["Date", "Time", "DateTime"][ty as usize];
    let op = format!("{}::set_{}", tyname, SETTERS[setter]);
    // observed: local time of day of the result (Time), or local instant of the result (DateTime)
    let got: R<i128> = if ty == 1 {
        let t0 = match crate::real::time_from(unod, off) {
            Some(t) => t,
            None => return,
        };
        attempt(|| {
            let r = match setter {
                4 => t0.set_hour(v as u32),
                5 => t0.set_minute(v as u32),
                6 => t0.set_second(v as u32),
                7 => t0.set_milli(v as u32),
                8 => t0.set_micro(v as u32),
                _ => t0.set_nano(v as u32),
            };
            r.map(|x| {
                let l = (x.as_nanos() as i128 + off as i128 * ins::NS).rem_euclid(ins::DAY);
                let fields_read = (x.hour() as i128 * 3600 + x.minute() as i128 * 60 + x.second() as i128) * ins::NS + x.nano() as i128;
                if fields_read != l || crate::real::off_secs(x.get_offset()) != off {
                    -1
                } else {
                    l
                }
            })
        })
    } else {
        let x0 = match crate::real::dt_from_off(uday, unod, off) {
            Some(x) => x,
            None => return,
        };
        attempt(|| {
            let r = match setter {
                4 => x0.set_hour(v as u32),
                5 => x0.set_minute(v as u32),
                6 => x0.set_second(v as u32),
                7 => x0.set_milli(v as u32),
                8 => x0.set_micro(v as u32),
                _ => x0.set_nano(v as u32),
            };
            r.map(|x| match crate::real::dt_instant(&x) {
                Some(i) if crate::real::off_secs(x.get_offset()) == off => i + off as i128 * ins::NS,
                _ => -1,
            })
        })
    };
    acc.transitions += 1;
    acc.states += 1;
    let want: Option<i128> = expect.map(|l| if ty == 1 { l.rem_euclid(ins::DAY) } else { l });
    match (want, &got) {
        (Some(w), R::Ok(g)) if *g == w => acc.branch("accepted"),
        (None, R::Oor(_)) => {
            acc.branch("refused");
            acc.nontrivial += 1;
        }
        (Some(w), other) => acc.violation(&op, "valid-clock-value-not-set-under-offset", case, format!("Ok with local reading {}", w), format!("{:?}", other)),
        (None, other) => acc.violation(&op, "invalid-clock-value-not-refused-under-offset", case, "Err(OutOfRange)".into(), format!("{:?}", other)),
    }
}

fn probe_setter(ty: u8, setter: usize, day: i64, nod: u64, v: i64) -> bool {
    let r = call(|| match ty {
        0 => {
            let d0 = Date::from_timestamp((day - cal::DAYS_TO_1970) * 86_400);
            match setter {
                0 => d0.set_year(v as i32).is_ok(),
                1 => d0.set_month(v as u32).is_ok(),
                2 => d0.set_day(v as u32).is_ok(),
                _ => d0.set_day_of_year(v as u32).is_ok(),
            }
        }
        1 => {
            let t0 = Time::from_nanos(nod).unwrap();
            match setter {
                4 => t0.set_hour(v as u32).is_ok(),
                5 => t0.set_minute(v as u32).is_ok(),
                6 => t0.set_second(v as u32).is_ok(),
                7 => t0.set_milli(v as u32).is_ok(),
                8 => t0.set_micro(v as u32).is_ok(),
                _ => t0.set_nano(v as u32).is_ok(),
            }
        }
        _ => {
            let x0 = DateTime::from_timestamp((day - cal::DAYS_TO_1970) * 86_400 + (nod / 1_000_000_000) as i64);
            match setter {
                0 => x0.set_year(v as i32).is_ok(),
                1 => x0.set_month(v as u32).is_ok(),
                2 => x0.set_day(v as u32).is_ok(),
                3 => x0.set_day_of_year(v as u32).is_ok(),
                4 => x0.set_hour(v as u32).is_ok(),
                5 => x0.set_minute(v as u32).is_ok(),
                6 => x0.set_second(v as u32).is_ok(),
                7 => x0.set_milli(v as u32).is_ok(),
                8 => x0.set_micro(v as u32).is_ok(),
                _ => x0.set_nano(v as u32).is_ok(),
            }
        }
    });
    matches!(r, Out::Val(true))
}

fn setter_values(setter: usize) -> Vec<i64> {
    let u = |v: Vec<u32>| v.into_iter().map(|x| x as i64).collect::<Vec<i64>>();
    match setter {
        0 => year_domain().into_iter().map(|x| x as i64).collect(),
        1 => {
            let mut v: Vec<i64> = (0..=14).collect();
            v.extend(u(ab::u32_b(12, 1)));
            v
        }
        2 => {
            let mut v: Vec<i64> = (0..=33).collect();
            v.extend(u(ab::u32_b(31, 1)));
            v
        }
        3 => {
            let mut v: Vec<i64> = vec![0, 1, 2, 58, 59, 60, 61, 173, 174, 175, 192, 193, 194, 364, 365, 366, 367, 368];
            v.extend(u(ab::u32_b(366, 1)));
            v
        }
        4 => {
            let mut v: Vec<i64> = (0..=25).collect();
            v.extend(u(ab::u32_b(23, 3600)));
            v
        }
        5 => {
            let mut v: Vec<i64> = (0..=61).collect();
            v.extend(u(ab::u32_b(59, 60)));
            v
        }
        6 => {
            let mut v: Vec<i64> = (0..=61).collect();
            v.extend(u(ab::u32_b(59, 1)));
            v
        }
        7 => u(ab::u32_b(999, 1_000_000)),
        8 => u(ab::u32_b(999_999, 1_000)),
        _ => u(ab::u32_b(999_999_999, 1)),
    }
}

pub fn run(ctx: &Ctx) -> i32 {
    let mut rep = Report::new(ctx);
    rep.rule = "states = distinct argument tuples; transitions = real constructor/setter calls (plus the probe calls used to decide which values of a named parameter are accepted); Ok iff reference-valid, Ok reads back its arguments, Err is OutOfRange, a stated range contains every accepted value of the named parameter (other arguments unchanged, decided by calling the real function over the parameter's domain) and excludes the rejected one; non-trivial = tuples that must be refused".into();
    rep.assumptions = vec![
        "messages without 'must be in the range A..=B' (custom text) are not judged".into(),
        "for the year parameter the accepted set is probed on the landmark-year alphabet, not on all 2^32 years (C01 covers all years for from_ymd)".into(),
    ];
    rep.require(&["accepted", "refused", "refused-with-stated-range", "refused-custom-message"]);
    let checked = PROFILE == "checked";
    // from_ymd / from_ymdhms cross products
    let mut years: Vec<i32> = year_domain().into_iter().map(|x| x as i32).collect();
    years.sort();
    years.dedup();
    let months: Vec<u32> = { let mut v: Vec<u32> = (0..=14).collect(); v.extend(ab::u32_b(12, 1)); v.sort(); v.dedup(); v };
    let dom: Vec<u32> = { let mut v: Vec<u32> = (0..=33).collect(); v.extend(ab::u32_b(31, 1)); v.sort(); v.dedup(); v };
    let (ny, nm, nd) = (years.len() as u64, months.len() as u64, dom.len() as u64);
    rep.sweep("from_ymd:years x months x days x {Date,DateTime}", ny * nm * nd * 2, "full cross product of boundary alphabets", |i, acc| {
        let which = (i % 2) as u8;
        let j = i / 2;
        case_ymdhms(which, years[(j / (nm * nd)) as usize], months[(j / nd % nm) as usize], dom[(j % nd) as usize], 0, 0, 0, acc);
        if i % 100_003 == 0 {
            acc.sample(json!({"op": "from_ymd", "args": [years[(j / (nm * nd)) as usize], months[(j / nd % nm) as usize], dom[(j % nd) as usize]]}));
        }
    });
    let hb = ab::u32_b(23, 3600);
    let mb = ab::u32_b(59, 60);
    let sb = ab::u32_b(59, 1);
    let ys: Vec<i32> = vec![-5_879_612, -5_879_611, -5, -1, 0, 1, 2024, 2023, 5_879_611, 5_879_612];
    let ms: Vec<u32> = vec![0, 1, 2, 6, 7, 8, 12, 13, u32::MAX];
    let ds: Vec<u32> = vec![0, 1, 12, 13, 22, 23, 28, 29, 30, 31, 32, u32::MAX];
    let dims = [ys.len() as u64, ms.len() as u64, ds.len() as u64, hb.len() as u64, mb.len() as u64, sb.len() as u64];
    let total: u64 = dims.iter().product();
    rep.sweep("from_ymdhms:6-way cross product", total, "years x months x days x U32_B(23) x U32_B(59) x U32_B(59)", |i, acc| {
        let mut r = i;
        let mut ix = [0usize; 6];
        for k in (0..6).rev() {
            ix[k] = (r % dims[k]) as usize;
            r /= dims[k];
        }
        case_ymdhms(2, ys[ix[0]], ms[ix[1]], ds[ix[2]], hb[ix[3]], mb[ix[4]], sb[ix[5]], acc);
        if i % 1_000_003 == 0 {
            acc.sample(json!({"op": "from_ymdhms", "args": [ys[ix[0]], ms[ix[1]], ds[ix[2]], hb[ix[3]], mb[ix[4]], sb[ix[5]]]}));
        }
    });
    // from_hms
    let hx: Vec<u32> = { let mut v: Vec<u32> = (0..=25).collect(); v.extend(hb.clone()); v.sort(); v.dedup(); v };
    let mx: Vec<u32> = { let mut v: Vec<u32> = (0..=61).collect(); v.extend(mb.clone()); v.sort(); v.dedup(); v };
    let sx: Vec<u32> = { let mut v: Vec<u32> = (0..=61).collect(); v.extend(sb.clone()); v.sort(); v.dedup(); v };
    let (a, b, c) = (hx.len() as u64, mx.len() as u64, sx.len() as u64);
    rep.sweep("from_hms:hours x minutes x seconds x {Time,DateTime}", a * b * c * 2, "all in-range values plus boundary and wrap-back values", |i, acc| {
        let j = i / 2;
        case_hms((i % 2) as u8, hx[(j / (b * c)) as usize], mx[(j / c % b) as usize], sx[(j % c) as usize], acc);
    });
    // complete axes
    if ctx.thorough || checked {
        rep.sweep("Time::from_seconds:all-2^32", 1 << 32, "every u32 argument; message judged on a 1/4099 lattice and near boundaries", |i, acc| {
            let s = i as u32;
            case_time_from_seconds(s, s < 90_000 || s % 4_099 == 0 || s > u32::MAX - 10, acc);
            if i % 1_000_000_007 == 0 {
                acc.sample(json!({"op": "Time::from_seconds", "arg": s}));
            }
        });
        rep.sweep("Offset::from_seconds:all-2^32", 1 << 32, "every i32 argument; message judged on a 1/4099 lattice and near boundaries", |i, acc| {
            let s = (i as i64 + i32::MIN as i64) as i32;
            case_offset_from_seconds(s, s.unsigned_abs() < 90_000 || s % 4_099 == 0 || s.unsigned_abs() > i32::MAX as u32 - 10, acc);
        });
    } else {
        rep.sweep("Time::from_seconds:boundaries", 400_000, "0..200000 and the top 200000 u32 values", |i, acc| {
            let s = if i < 200_000 { i as u32 } else { u32::MAX - (i - 200_000) as u32 };
            case_time_from_seconds(s, true, acc);
        });
        rep.sweep("Offset::from_seconds:boundaries", 800_000, "-200000..200000 and both i32 ends", |i, acc| {
            let s = if i < 400_000 { i as i32 - 200_000 } else if i < 600_000 { i32::MIN + (i - 400_000) as i32 } else { i32::MAX - (i - 600_000) as i32 };
            case_offset_from_seconds(s, true, acc);
        });
    }
    let mut nb: Vec<u64> = vec![0, 1, ab::DAY_NS - 1, ab::DAY_NS, ab::DAY_NS + 1, 2 * ab::DAY_NS - 1, 2 * ab::DAY_NS, u32::MAX as u64, 1 << 32, (1 << 63) - 1, 1 << 63, u64::MAX - 1, u64::MAX];
    for k in 0..64 {
        nb.push(1u64 << k);
        nb.push((1u64 << k).wrapping_sub(1));
    }
    for n in ab::nanos_b() {
        nb.push(n);
        nb.push(n + ab::DAY_NS);
    }
    // wrap-back values: arguments whose quotient by a unit (ns, us, ms, s) is a multiple of 2^32 plus a
    // value inside the day, so that a narrowing cast somewhere in the constructor would land in range
    for unit in [1u128, 1_000, 1_000_000, 1_000_000_000] {
        for j in 1u128..=4 {
            let base = (1u128 << 32) * j * unit;
            for add in [0u128, 1, 999_999_999, 86_399 * 1_000_000_000, ab::DAY_NS as u128 - 1, 43_200 * unit] {
                if base + add <= u64::MAX as u128 {
                    nb.push((base + add) as u64);
                }
            }
        }
    }
    nb.sort();
    nb.dedup();
    rep.sweep("Time::from_nanos:u64-boundaries", nb.len() as u64, "powers of two, day boundaries, wrap-back values (2^32 x j x unit + in-day value)", |i, acc| case_time_from_nanos(nb[i as usize], acc));
    let mut ohs: Vec<i32> = (-26..=26).collect();
    ohs.extend([i32::MIN, i32::MIN + 1, i32::MAX - 1, i32::MAX]);
    let (oa, ob, oc) = (ohs.len() as u64, mx.len() as u64, sx.len() as u64);
    rep.sweep("Offset::from_hms:hours x minutes x seconds", oa * ob * oc, "hours -26..=26 and i32 ends", |i, acc| {
        case_offset_from_hms(ohs[(i / (ob * oc)) as usize], mx[(i / oc % ob) as usize], sx[(i % oc) as usize], acc);
    });
    // setters
    let days = if ctx.thorough { ab::days_b() } else { ab::days_b_small() };
    let nanos = ab::nanos_b();
    let mut cases: Vec<(u8, usize, i64, u64, i64)> = vec![];
    for setter in 0..10 {
        let vals = setter_values(setter);
        for ty in 0..3u8 {
            if (ty == 0 && setter >= 4) || (ty == 1 && setter < 4) {
                continue;
            }
            for &d in &days {
                let ns: Vec<u64> = if ty == 0 { vec![0] } else if setter < 4 { vec![0, ab::DAY_NS - 1] } else { nanos.clone() };
                if ty == 1 && d != days[0] {
                    continue;
                }
                for &n in &ns {
                    for &v in &vals {
                        cases.push((ty, setter, d, n, v));
                    }
                }
            }
        }
    }
    rep.sweep("setters:DAYS_B x NANOS_B x candidate values (offset 0)", cases.len() as u64, "10 setters on Date/Time/DateTime", |i, acc| {
        let (ty, setter, d, n, v) = cases[i as usize];
        case_setter(ty, setter, d, n, v, acc);
        if i % 400_009 == 0 {
            acc.sample(json!({"op": format!("set_{}", SETTERS[setter]), "ty": ty, "day": d, "nod": n, "v": v}));
        }
    });
    // date setters under offsets that move the local date into another day / month / year than the UTC date
    let odays = ab::days_b_small();
    let combos: [(u64, i32); 6] = [(84_600_000_000_000, 3_600), (1_800_000_000_000, -3_600), (43_200_000_000_000, 43_200), (43_199_999_999_999, -43_200), (86_399_999_999_999, 1), (0, -86_399)];
    let mut ocases: Vec<(i64, u64, i32, usize, i64)> = vec![];
    for &d in &odays {
        for (nod, off) in combos {
            for setter in 0..4 {
                for v in setter_values(setter) {
                    ocases.push((d, nod, off, setter, v));
                }
            }
        }
    }
    rep.sweep("date setters on DateTime under offsets (local date differs from UTC date)", ocases.len() as u64, "DAYS_B' x 6 (time, offset) combinations x 4 setters x candidate values", |i, acc| {
        let (d, n, o, s, v) = ocases[i as usize];
        case_setter_offset(d, n, o, s, v, acc);
    });
    // clock setters under offsets, receivers chosen by their local time of day
    let local_times: Vec<u64> = vec![0, 1, 999_999_999, 1_000_000_000, 59_999_999_999, 60_000_000_000, 3_599_999_999_999, 3_600_000_000_000, 43_199_999_999_999, 43_200_000_000_000, 82_800_000_000_000, 86_340_000_000_000, 86_399_000_000_000, 86_399_999_999_999, 45_296_123_456_789];
    let offs: Vec<i32> = vec![0, 1, -1, 59, -59, 60, -60, 3_599, 3_600, -3_600, 19_800, -34_200, 43_200, -43_200, 86_340, -86_340, 86_399, -86_399];
    let mut ccases: Vec<(u8, i64, u64, i32, usize, i64)> = vec![];
    for (ty, day) in [(1u8, 0i64), (2, 738_000), (2, -400)] {
        for &l in &local_times {
            for &o in &offs {
                for setter in 4..10 {
                    for v in setter_values(setter) {
                        ccases.push((ty, day, l, o, setter, v));
                    }
                }
            }
        }
    }
    rep.sweep("clock setters on Time / DateTime under offsets (receivers by local time of day)", ccases.len() as u64, "15 local times (both ends of the local day, minute and hour edges) x 18 offsets x 6 setters x candidate values x {Time, DateTime AD, DateTime BC}", |i, acc| {
        let (ty, d, l, o, s, v) = ccases[i as usize];
        case_clock_setter_offset(ty, d, l, o, s, v, acc);
    });
    rep.finish()
}

pub fn replay(_op: &str, case: &Value, acc: &mut Acc) -> bool {
    let a = &case["args"];
    match case["kind"].as_str() {
        Some("ymdhms") => case_ymdhms(case["which"].as_u64().unwrap() as u8, a[0].as_i64().unwrap() as i32, a[1].as_u64().unwrap() as u32, a[2].as_u64().unwrap() as u32, a[3].as_u64().unwrap() as u32, a[4].as_u64().unwrap() as u32, a[5].as_u64().unwrap() as u32, acc),
        Some("hms") => case_hms(case["which"].as_u64().unwrap() as u8, a[0].as_u64().unwrap() as u32, a[1].as_u64().unwrap() as u32, a[2].as_u64().unwrap() as u32, acc),
        Some("time_from_seconds") => case_time_from_seconds(case["sec"].as_u64().unwrap() as u32, true, acc),
        Some("time_from_nanos") => case_time_from_nanos(case["n"].as_str().unwrap().parse().unwrap(), acc),
        Some("offset_from_seconds") => case_offset_from_seconds(case["sec"].as_i64().unwrap() as i32, true, acc),
        Some("offset_from_hms") => case_offset_from_hms(a[0].as_i64().unwrap() as i32, a[1].as_u64().unwrap() as u32, a[2].as_u64().unwrap() as u32, acc),
        Some("setter_offset") => case_setter_offset(case["day"].as_i64().unwrap(), case["nod"].as_str().unwrap().parse().unwrap(), case["off"].as_i64().unwrap() as i32, case["setter"].as_u64().unwrap() as usize, case["v"].as_i64().unwrap(), acc),
        Some("clock_setter_offset") => case_clock_setter_offset(case["ty"].as_u64().unwrap() as u8, case["day"].as_i64().unwrap(), case["local_nod"].as_str().unwrap().parse().unwrap(), case["off"].as_i64().unwrap() as i32, case["setter"].as_u64().unwrap() as usize, case["v"].as_i64().unwrap(), acc),
        Some("setter") => case_setter(case["ty"].as_u64().unwrap() as u8, case["setter"].as_u64().unwrap() as usize, case["day"].as_i64().unwrap(), case["nod"].as_str().unwrap().parse().unwrap(), case["v"].as_i64().unwrap(), acc),
        _ => return false,
    }
    true
}
