//! C18 — the timezone reader returns the UTC offset the TZif data defines per instant
//! (E1 over the vendored corpus, its slim / v1 re-encodings and synthesised files; hooked entry point).
use crate::engine::{call, Acc, Ctx, Out, Report};
use crate::refmodel::calendar as cal;
use crate::refmodel::tzif::{self as rz, Rule, Zone};
use astrolabe::{DateUtilities, Offset, OffsetUtilities, TimeUtilities};
use serde_json::{json, Value};
use std::time::Duration;

pub fn corpus_dir() -> String {
    std::env::var("MC_CORPUS").unwrap_or_else(|_| "/verif/corpus/tz".into())
}

fn unix_of(y: i64, m: u32, d: u32, h: i64) -> i64 {
    (cal::days_from_civil(y, m, d) - cal::DAYS_TO_1970) * 86_400 + h * 3600
}

const RULE_YEARS: [i64; 10] = [1970, 1999, 2000, 2023, 2024, 2037, 2038, 2100, 2400, 2499];

/// probe timestamps for a zone: each transition -1/0/+1, rule switches +-1 s, yearly mid-season points 1900-2500
pub fn probes(z: &Zone, dense: bool) -> Vec<i64> {
    let mut v = vec![];
    for (t, _) in &z.transitions {
        v.extend([t - 1, *t, t + 1]);
    }
    if let Some(r) = &z.footer {
        let years: Vec<i64> = if dense { (1900..=2500).collect() } else { RULE_YEARS.to_vec() };
        for y in years {
            for (s, _) in rz::switches(r, y) {
                v.extend([s - 1, s, s + 1, s - 3600, s + 3600]);
            }
        }
    }
    if dense {
        // thorough: every 6 hours of 2023-2026 and every day (at 12:00 and 23:59:59) of 1900-2500
        let mut t = unix_of(2023, 1, 1, 0);
        while t < unix_of(2027, 1, 1, 0) {
            v.push(t);
            t += 6 * 3600;
        }
        let mut d = unix_of(1900, 1, 1, 12);
        while d < unix_of(2501, 1, 1, 0) {
            v.push(d);
            v.push(d + 12 * 3600 - 1);
            d += 86_400;
        }
    }
    let step = if dense { 1 } else { 7 };
    let mut y = 1900;
    while y <= 2500 {
        v.extend([unix_of(y, 1, 15, 12), unix_of(y, 4, 15, 0), unix_of(y, 7, 15, 12), unix_of(y, 10, 20, 6), unix_of(y, 12, 25, 23)]);
        y += step;
    }
    v.extend([0, 1, -1, 2_147_483_647, 2_147_483_648, -2_147_483_648, 4_102_444_800, 16_725_225_600]);
    v.sort();
    v.dedup();
    v
}

/// compare real offsets with the reference on every probe of one file
fn case_file(name: &str, bytes: &[u8], z: &Zone, dense: bool, acc: &mut Acc) {
    case_file_inner(name, bytes, z, dense, acc);
    // purity probe: a fixed well-formed file is looked up again after every file
    use std::sync::OnceLock;
    static ANCHOR: OnceLock<(Vec<u8>, Vec<i64>, Vec<i32>)> = OnceLock::new();
    let (ab, ats, want) = ANCHOR.get_or_init(|| {
        let rule = rz::parse_posix_tz("EST5EDT,M3.2.0,M11.1.0", false);
        let az = Zone { version: 2, transitions: vec![(-1_000_000_000, 1), (954_032_400, 2), (972_781_200, 1)], types: vec![(-17_762, false, 0), (-18_000, false, 4), (-14_400, true, 8)], footer: rule, footer_text: "EST5EDT,M3.2.0,M11.1.0".into(), leaps: 0, indicators: false };
        let ts = vec![0i64, 960_000_000, 1_000_000_000, 1_720_000_000, 1_735_000_000];
        let want = ts.iter().map(|t| rz::offset_at(&az, *t).unwrap_or(i32::MIN)).collect();
        (rz::write_tzif(&az), ts, want)
    });
    acc.transitions += 1;
    let got = call(|| astrolabe::verif_hooks::tzif_offsets(ab, ats));
    if got != Out::Val(Ok(want.clone())) {
        acc.violation("TZif lookup (purity probe)", "anchor-file-answered-differently-after-another-file", json!({"kind": "file", "name": name, "t": 0, "bytes_hex": if bytes.len() <= 600 { hex(bytes) } else { String::new() }}), format!("{:?}", want), got.show());
    }
}

fn case_file_inner(name: &str, bytes: &[u8], z: &Zone, dense: bool, acc: &mut Acc) {
    let ts = probes(z, dense);
    acc.states += 1;
    acc.transitions += ts.len() as u64;
    let got = call(|| astrolabe::verif_hooks::tzif_offsets(bytes, &ts));
    let case = |t: i64| json!({"kind": "file", "name": name, "t": t, "bytes_hex": if bytes.len() <= 600 { hex(bytes) } else { String::new() }});
    match &got {
        Out::Val(Ok(offs)) => {
            let last = z.transitions.last().map(|x| x.0);
            for (t, o) in ts.iter().zip(offs) {
                match rz::offset_at(z, *t) {
                    None => acc.branch("before-first-transition-unjudged"),
                    Some(w) => {
                        if w != *o {
                            let cls = if z.transitions.iter().any(|(tt, _)| tt == t) {
                                "at-transition-instant"
                            } else if last.map_or(true, |l| *t >= l) && z.footer.is_some() {
                                match z.footer.as_ref().unwrap() {
                                    Rule::Fixed(_) => "footer-fixed",
                                    Rule::Alt { start, end, .. } => {
                                        if z.transitions.is_empty() {
                                            match (start, end) {
                                                (rz::RuleDay::J(_), _) | (_, rz::RuleDay::J(_)) => "footer-only-J-rule",
                                                (rz::RuleDay::N(_), _) | (_, rz::RuleDay::N(_)) => "footer-only-n-rule",
                                                _ => "footer-only-M-rule",
                                            }
                                        } else {
                                            "footer-after-last-transition"
                                        }
                                    }
                                }
                            } else {
                                "inside-table"
                            };
                            acc.violation("TZif lookup", cls, case(*t), w.to_string(), o.to_string());
                        }
                        if last.map_or(true, |l| *t >= l) && z.footer.is_some() {
                            acc.branch("decided-by-footer");
                        } else {
                            acc.branch("decided-by-table");
                        }
                        if z.transitions.iter().any(|(tt, _)| tt == t) {
                            acc.branch("at-transition-instant");
                            acc.nontrivial += 1;
                        }
                    }
                }
            }
        }
        other => acc.violation("TZif reader", "well-formed-file-rejected-or-panic", case(0), "offsets".into(), other.show()),
    }
}

fn hex(b: &[u8]) -> String {
    b.iter().map(|x| format!("{:02x}", x)).collect()
}

fn unhex(s: &str) -> Vec<u8> {
    (0..s.len() / 2).map(|i| u8::from_str_radix(&s[2 * i..2 * i + 2], 16).unwrap()).collect()
}

/// Offset::Local: /etc/localtime replaced by `bytes` and the clock pinned to `t`
fn case_local(name: &str, bytes: &[u8], z: &Zone, t: i64, acc: &mut Acc) {
    if t < 0 {
        return;
    }
    let want = match rz::offset_at(z, t) {
        Some(w) => w,
        None => return,
    };
    acc.transitions += 1;
    astrolabe::verif_hooks::set_localtime_bytes(Some(bytes.to_vec()));
    astrolabe::verif_hooks::set_now(Some(Duration::from_secs(t as u64)));
    let got = call(|| Offset::Local.resolve());
    // DateTime::now_local(): the pinned instant, read on the wall clock of the zone
    let now_local = call(|| {
        let x = astrolabe::DateTime::now_local();
        (x.timestamp(), x.hour(), x.minute(), x.second(), x.get_offset() == Offset::Local)
    });
    astrolabe::verif_hooks::set_localtime_bytes(None);
    astrolabe::verif_hooks::set_now(None);
    let wall = (t + want as i64).rem_euclid(86_400);
    let want_now = (t, (wall / 3600) as u32, (wall / 60 % 60) as u32, (wall % 60) as u32, true);
    acc.transitions += 1;
    if now_local != Out::Val(want_now) {
        acc.violation("DateTime::now_local", "wall-clock-of-the-current-time", json!({"kind": "local", "name": name, "t": t, "bytes_hex": if bytes.len() <= 600 { hex(bytes) } else { String::new() }}), format!("{:?}", want_now), now_local.show());
    }
    if got != Out::Val(want) {
        acc.violation("Offset::Local.resolve", "local-offset", json!({"kind": "local", "name": name, "t": t, "bytes_hex": if bytes.len() <= 600 { hex(bytes) } else { String::new() }}), want.to_string(), got.show());
    }
    acc.branch("offset-local");
}

/// Offset::Local resolved twice in a row on the same data: one second before a switch-over and at
/// it. The answer to the second call must not depend on the first (a history of two calls).
fn case_local_sequence(name: &str, bytes: &[u8], z: &Zone, acc: &mut Acc) {
    let mut instants: Vec<i64> = z.transitions.iter().map(|(t, _)| *t).filter(|t| *t > 60 && t % 60 != 0).take(6).collect();
    instants.extend(z.transitions.iter().map(|(t, _)| *t).filter(|t| *t > 60 && t % 60 == 0).rev().take(2));
    if let Some(r) = &z.footer {
        for y in [2030i64, 2031] {
            for (s, _) in rz::switches(r, y) {
                if z.transitions.last().map_or(true, |(l, _)| s > *l) {
                    instants.push(s);
                }
            }
        }
    }
    astrolabe::verif_hooks::set_localtime_bytes(Some(bytes.to_vec()));
    for t in instants {
        let (w1, w2) = match (rz::offset_at(z, t - 1), rz::offset_at(z, t)) {
            (Some(a), Some(b)) => (a, b),
            _ => continue,
        };
        acc.transitions += 2;
        astrolabe::verif_hooks::set_now(Some(Duration::from_secs((t - 1) as u64)));
        let first = call(|| Offset::Local.resolve());
        astrolabe::verif_hooks::set_now(Some(Duration::from_secs(t as u64)));
        let second = call(|| Offset::Local.resolve());
        if first != Out::Val(w1) || second != Out::Val(w2) {
            acc.violation("Offset::Local.resolve", "two-calls-across-a-switch-over", json!({"kind": "local_seq", "name": name, "t": t, "bytes_hex": if bytes.len() <= 600 { hex(bytes) } else { String::new() }}), format!("{} then {}", w1, w2), format!("{} then {}", first.show(), second.show()));
        }
        acc.branch("offset-local-sequence");
    }
    astrolabe::verif_hooks::set_localtime_bytes(None);
    astrolabe::verif_hooks::set_now(None);
}

/// drop trailing transitions that the footer rule reproduces (slim encoding)
fn slim(z: &Zone) -> Option<Zone> {
    let r = z.footer.as_ref()?;
    let n = z.transitions.len();
    if n < 3 {
        return None;
    }
    let mut k = n;
    while k > 1 {
        let (t, ty) = z.transitions[k - 1];
        let (_, pty) = z.transitions[k - 2];
        if rz::rule_offset(r, t) == z.types[ty].0 && rz::rule_offset(r, t - 1) == z.types[pty].0 {
            k -= 1;
        } else {
            break;
        }
    }
    // keep transitions[..=k] : the first one that the rule reproduces stays as the hand-over point
    if k + 1 >= n {
        return None;
    }
    let mut s = z.clone();
    s.transitions.truncate(k + 1);
    Some(s)
}

/// the version-1 block of a v2+ file as a stand-alone v1 file
fn as_v1(bytes: &[u8]) -> Option<Vec<u8>> {
    if bytes.len() < 44 || bytes[4] == 0 {
        return None;
    }
    let c = |k: usize| u32::from_be_bytes([bytes[20 + 4 * k], bytes[21 + 4 * k], bytes[22 + 4 * k], bytes[23 + 4 * k]]) as usize;
    let need = c(3) * 5 + c(4) * 6 + c(5) + c(2) * 8 + c(1) + c(0);
    if c(4) == 0 || bytes.len() < 44 + need {
        return None;
    }
    let mut v = bytes[..44 + need].to_vec();
    v[4] = 0;
    Some(v)
}

// ------------------------------------------------------------------ synthesis

fn iana_shaped(r: &Rule) -> bool {
    for y in [1999i64, 2000, 2023, 2024, 2037] {
        let sw = rz::switches(r, y);
        if sw.len() != 2 {
            return true;
        }
        let jan1 = unix_of(y, 1, 1, 0);
        let next = unix_of(y + 1, 1, 1, 0);
        let week = 8 * 86_400;
        for (s, _) in &sw {
            if *s < jan1 + week + 86_400 || *s > next - week - 86_400 {
                return false;
            }
        }
        if (sw[0].0 - sw[1].0).abs() < week {
            return false;
        }
    }
    true
}

pub fn footers(thorough: bool) -> Vec<(String, bool)> {
    // (text, needs v3)
    let mut v: Vec<(String, bool)> = vec![("UTC0".into(), false), ("EST5".into(), false), ("<+03>-3".into(), false), ("IST-5:30".into(), false), ("<-0930>9:30".into(), false), ("<+1245>-12:45".into(), false)];
    let mut days: Vec<String> = vec![];
    for m in [3, 4, 9, 10, 11] {
        for w in [1, 2, 4, 5] {
            for d in [0, 1, 6] {
                if thorough || (w != 2 && d != 1) || m == 3 {
                    days.push(format!("M{}.{}.{}", m, w, d));
                }
            }
        }
    }
    for n in [59, 60, 61, 100, 300] {
        days.push(format!("J{}", n));
    }
    for n in [58, 59, 60, 99, 299] {
        days.push(n.to_string());
    }
    // every spelling of an offset / a rule time: sign x hour x optional minutes x optional seconds
    let mut spelled: Vec<(String, bool, bool)> = vec![]; // (text, negative or explicit sign, beyond 24 h)
    for sign in ["", "-", "+"] {
        for h in [0u32, 1, 2, 9, 12, 24, 25, 167] {
            for ms in [None, Some((0u32, None)), Some((30, None)), Some((59, None)), Some((45, Some(0u32))), Some((30, Some(28))), Some((59, Some(59)))] {
                let mut t = format!("{}{}", sign, h);
                if let Some((m, sec)) = ms {
                    t.push_str(&format!(":{:02}", m));
                    if let Some(sec) = sec {
                        t.push_str(&format!(":{:02}", sec));
                    }
                }
                spelled.push((t, sign == "-", h > 24));
            }
        }
    }
    for (t, _, big) in &spelled {
        if !*big {
            v.push((format!("ABC{}", t), false));
            v.push((format!("<+AB1>{}", t), false));
            // both offsets spelled; the dst offset one hour east of the std offset is the default, here explicit
            v.push((format!("ABC{}DEF,M3.5.0,M10.5.0", t), false));
            v.push((format!("ABC5DEF{},M3.2.0,M11.1.0", t), false));
        }
    }
    for (t, neg, big) in &spelled {
        v.push((format!("CET-1CEST,M3.5.0/{},M10.5.0", t), *neg || *big));
        v.push((format!("CET-1CEST,M3.5.0,M10.5.0/{}", t), *neg || *big));
        v.push((format!("AEST-10AEDT,M10.1.0/{},M4.1.0/{}", t, t), *neg || *big));
    }
    // every month x week x weekday once as the start and once as the end of daylight time
    for m in 1..=12u32 {
        for w in 1..=5u32 {
            for d in 0..=6u32 {
                let m2 = (m + 5) % 12 + 1;
                v.push((format!("CET-1CEST,M{}.{}.{},M{}.{}.{}", m, w, d, m2, (w + 1) % 5 + 1, (d + 3) % 7), false));
                v.push((format!("AEST-10AEDT,M{}.{}.{}/2,M{}.{}.{}/3", m2, (w + 2) % 5 + 1, (d + 5) % 7, m, w, d), false));
            }
        }
    }
    // every Julian day (both forms) once as the start and once as the end
    for n in 1..=365u32 {
        let other = (n + 181) % 365 + 1;
        if thorough || n % 7 == 3 || [1, 59, 60, 61, 365].contains(&n) {
            v.push((format!("CET-1CEST,J{},J{}", n, other), false));
            v.push((format!("CET-1CEST,{},{}", n - 1, other - 1), false));
        }
    }
    let times: Vec<(&str, bool)> = vec![("", false), ("/0", false), ("/1:30", false), ("/3", false), ("/24", false), ("/-1", true), ("/26", true)];
    let zones = [("CET-1CEST", ""), ("EST5EDT", ""), ("AEST-10AEDT", ""), ("<+0330>-3:30<+0430>", ""), ("IST-1GMT0", ""), ("NZST-12NZDT", "")];
    for (zi, (zn, _)) in zones.iter().enumerate() {
        for (si, s) in days.iter().enumerate() {
            for (ei, e) in days.iter().enumerate() {
                // spring/autumn pairs in both hemispheres; keep the product bounded by rotating times
                if s == e {
                    continue;
                }
                if !thorough && (si + ei + zi) % 3 != 0 {
                    continue;
                }
                let (st, sv3) = times[(si + zi) % times.len()];
                let (et, ev3) = times[(ei + 2 * zi + 1) % times.len()];
                v.push((format!("{},{}{},{}{}", zn, s, st, e, et), sv3 || ev3));
            }
        }
    }
    v
}

/// RFC-consistent zones for one footer: versions x table shapes
pub fn synth_zones(text: &str, v3: bool) -> Vec<Zone> {
    synth(text, v3)
}

fn synth(text: &str, v3: bool) -> Vec<Zone> {
    let rule = match rz::parse_posix_tz(text, true) {
        Some(r) => r,
        None => return vec![],
    };
    if !iana_shaped(&rule) {
        return vec![];
    }
    let mut out = vec![];
    let versions: Vec<u8> = if v3 { vec![3] } else { vec![2, 3] };
    match &rule {
        Rule::Fixed(o) => {
            let types = vec![(o - 1234, false, 0u8), (*o, false, 4), (o + 3600, true, 8)];
            let tables: Vec<Vec<(i64, usize)>> = vec![vec![], vec![(-1_000_000_000, 1)], vec![(-2_000_000_000, 1), (100_000_000, 2), (110_000_000, 1)], vec![(946_684_800, 2), (2_145_916_800, 1)]];
            for ver in versions.iter().chain([1u8].iter()) {
                for t in &tables {
                    let types_used = if t.is_empty() && *ver != 1 { vec![types[1]] } else if t.is_empty() { vec![types[1]] } else { types.clone() };
                    out.push(Zone { version: *ver, transitions: t.clone(), types: types_used, footer: if *ver == 1 { None } else { Some(rule.clone()) }, footer_text: if *ver == 1 { String::new() } else { text.to_string() }, leaps: 0, indicators: false });
                }
            }
        }
        Rule::Alt { std, dst, .. } => {
            let types = vec![(std - 1234, false, 0u8), (*std, false, 4), (*dst, true, 8)];
            // rule switches as explicit transitions
            let explicit = |from: i64, to: i64| -> Vec<(i64, usize)> {
                let mut v = vec![];
                for y in from..=to {
                    let mut sw = rz::switches(&rule, y);
                    sw.sort();
                    for (s, is_dst) in sw {
                        v.push((s, if is_dst { 2 } else { 1 }));
                    }
                }
                v
            };
            let lmt = (unix_of(1901, 12, 14, 0), 1usize);
            let mut tables: Vec<Vec<(i64, usize)>> = vec![vec![]];
            let mut slimt = vec![lmt];
            slimt.extend(explicit(1970, 1971));
            tables.push(slimt);
            let mut one = explicit(2000, 2000);
            one.truncate(1);
            tables.push(one);
            let mut fat = vec![lmt];
            fat.extend(explicit(1970, 2037));
            tables.push(fat);
            // a table whose last transitions repeat the type already in force (the table, not the
            // footer, governs up to the last of them - several seasons during which the rule would switch)
            let mut noop = vec![lmt];
            noop.extend(explicit(1970, 1971));
            if let Some(&(_, ty)) = noop.last() {
                noop.push((unix_of(1975, 1, 15, 12), ty));
                noop.push((unix_of(1980, 1, 15, 12), ty));
                tables.push(noop);
            }
            for ver in &versions {
                for t in &tables {
                    // the table must hand over consistently: last transition's offset equals the rule's at that time
                    if let Some((lt, lty)) = t.last() {
                        if rz::rule_offset(&rule, *lt) != types[*lty].0 {
                            continue;
                        }
                    }
                    out.push(Zone { version: *ver, transitions: t.clone(), types: types.clone(), footer: Some(rule.clone()), footer_text: text.to_string(), leaps: 0, indicators: false });
                }
            }
        }
    }
    out
}

pub fn load_corpus() -> Vec<(String, Vec<u8>)> {
    let mut v = vec![];
    if let Ok(rd) = std::fs::read_dir(corpus_dir()) {
        for e in rd.flatten() {
            if let Ok(b) = std::fs::read(e.path()) {
                v.push((e.file_name().to_string_lossy().to_string(), b));
            }
        }
    }
    v.sort();
    v
}

pub fn run(ctx: &Ctx) -> i32 {
    let mut rep = Report::new(ctx);
    rep.rule = "states = distinct TZif files (corpus, slim and v1 re-encodings, synthesised); transitions = offset lookups through the hooked entry point (and Offset::Local with /etc/localtime and the clock replaced), each compared with the reference RFC 8536 / POSIX-TZ evaluator from the file's first transition onward; non-trivial = lookups exactly at a transition instant".into();
    rep.assumptions = vec![
        "synthesised footers are filtered to IANA shape (switch-overs more than 8 days apart and more than 9 days from 1 January); files with a table and a footer are generated from the rule, so they are RFC-consistent by construction".into(),
        "the reference evaluator is cross-checked against CPython zoneinfo on the corpus in the thorough tier (tools/tz_crosscheck.py)".into(),
    ];
    rep.require(&["decided-by-footer", "decided-by-table", "at-transition-instant", "offset-local", "offset-local-sequence"]);
    let corpus = load_corpus();
    if corpus.len() < 100 {
        rep.machinery_errors.push(format!("corpus at {} has only {} files", corpus_dir(), corpus.len()));
    }
    let mut files: Vec<(String, Vec<u8>, Zone)> = vec![];
    let mut unread = 0;
    for (n, b) in &corpus {
        match rz::read_tzif(b) {
            Some(z) => {
                if let Some(s) = slim(&z) {
                    let sb = rz::write_tzif(&s);
                    if let Some(sz) = rz::read_tzif(&sb) {
                        files.push((format!("{} (slim re-encoding)", n), sb, sz));
                    }
                }
                if let Some(v1) = as_v1(b) {
                    if let Some(vz) = rz::read_tzif(&v1) {
                        files.push((format!("{} (v1 block only)", n), v1, vz));
                    }
                }
                files.push((n.clone(), b.clone(), z));
            }
            None => unread += 1,
        }
    }
    if unread > 0 {
        rep.machinery_errors.push(format!("{} corpus files are not readable by the reference reader", unread));
    }
    rep.extra.insert("corpus_files".into(), json!(corpus.len()));
    rep.extra.insert("corpus_with_reencodings".into(), json!(files.len()));
    let dense = ctx.thorough;
    rep.sweep("corpus: every distinct zoneinfo file, its slim re-encoding and its v1 block", files.len() as u64, "probes: transitions -1/0/+1, rule switches +-1 s / +-1 h, mid-season points 1900-2500 (thorough: also every 6 h of 2023-2026 and twice every day of 1900-2500)", |i, acc| {
        let (n, b, z) = &files[i as usize];
        case_file(n, b, z, dense, acc);
        for t in [0i64, 1_700_000_000, 1_720_000_000, 2_163_196_800, 4_000_000_000] {
            case_local(n, b, z, t, acc);
        }
        case_local_sequence(n, b, z, acc);
        if i % 151 == 0 {
            acc.sample(json!({"file": n, "transitions": z.transitions.len(), "footer": z.footer_text}));
        }
    });
    let foot = footers(ctx.thorough);
    rep.extra.insert("synth_footers".into(), json!(foot.len()));
    rep.sweep("synthesised: footers (fixed, Mm.w.d / Jn / n rules, times incl. v3 extensions, both hemispheres) x versions x table shapes", foot.len() as u64, "one index per footer; each expands to versions {1,2,3} x tables {none, slim, single, fat, trailing no-op transitions}", |i, acc| {
        let (text, v3) = &foot[i as usize];
        let zs = synth(text, *v3);
        if zs.is_empty() {
            if rz::parse_posix_tz(text, true).is_none() {
                acc.branch("footer-not-accepted-by-the-reference-skipped");
                acc.sample(json!({"footer_not_accepted_by_reference": text}));
            } else {
                acc.branch("footer-not-iana-shaped-skipped");
            }
        }
        // every shape once more with leap-second records and standard/wall + UT/local indicators present
        let mut with_extras = vec![];
        for (k, z) in zs.iter().enumerate() {
            if (i as usize + k) % 3 == 0 {
                let mut e = z.clone();
                e.leaps = 2;
                e.indicators = true;
                with_extras.push(e);
            }
        }
        for z in zs.into_iter().chain(with_extras) {
            let b = rz::write_tzif(&z);
            // the writer/reader pair must round-trip (self-check of the synthesiser)
            match rz::read_tzif(&b) {
                Some(r) if r.transitions == z.transitions && r.footer == z.footer => {}
                _ => acc.violation("harness", "synth-roundtrip", json!({"footer": text}), "reader(writer(z)) == z".into(), "mismatch".into()),
            }
            let name = format!("synth v{} {} table={} leaps={}", z.version, text, z.transitions.len(), z.leaps);
            case_file(&name, &b, &z, false, acc);
            case_local(&name, &b, &z, 1_711_846_800, acc);
            case_local_sequence(&name, &b, &z, acc);
            acc.branch("synthesised-file");
        }
        if i % 397 == 0 {
            acc.sample(json!({"footer": text, "v3": v3}));
        }
    });
    rep.finish()
}

pub fn replay(_op: &str, case: &Value, acc: &mut Acc) -> bool {
    let name = case["name"].as_str().unwrap_or("");
    let bytes = if let Some(h) = case["bytes_hex"].as_str().filter(|h| !h.is_empty()) {
        unhex(h)
    } else {
        // corpus file (possibly a re-encoding): rebuild the same way
        let base = name.split(" (").next().unwrap_or(name);
        let b = match std::fs::read(format!("{}/{}", corpus_dir(), base)) {
            Ok(b) => b,
            Err(_) => return false,
        };
        if name.ends_with("(slim re-encoding)") {
            match rz::read_tzif(&b).and_then(|z| slim(&z)) {
                Some(s) => rz::write_tzif(&s),
                None => return false,
            }
        } else if name.ends_with("(v1 block only)") {
            match as_v1(&b) {
                Some(v) => v,
                None => return false,
            }
        } else {
            b
        }
    };
    let z = match rz::read_tzif(&bytes) {
        Some(z) => z,
        None => return false,
    };
    let t = case["t"].as_i64().unwrap_or(0);
    match case["kind"].as_str() {
        Some("local") => case_local(name, &bytes, &z, t, acc),
        Some("local_seq") => case_local_sequence(name, &bytes, &z, acc),
        _ => {
            // single-timestamp comparison
            let got = call(|| astrolabe::verif_hooks::tzif_offsets(&bytes, &[t]));
            if let Some(w) = rz::offset_at(&z, t) {
                match &got {
                    Out::Val(Ok(o)) if o[0] == w => {}
                    other => acc.violation("TZif lookup", "replay", case.clone(), w.to_string(), other.show()),
                }
            }
        }
    }
    true
}
