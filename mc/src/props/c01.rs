//! C01 — day number <-> proleptic Gregorian date is a validated bijection (E1, complete).
use crate::alphabets as ab;
use crate::engine::{call, call_res, Acc, Ctx, Out, Report};
use crate::real::{date_day, date_from_day};
use crate::refmodel::calendar::{self as cal, Walker};
use astrolabe::errors::AstrolabeError;
use astrolabe::{Date, DateTime, DateUtilities};
use serde_json::{json, Value};

fn region(a: i64) -> &'static str {
    if a <= 0 && cal::is_leap(a) {
        "bc-leap-year"
    } else if a <= 0 {
        "bc"
    } else {
        "ad"
    }
}

/// one day number: read-back equals the walker's date, and from_ymd of that date gives the day back
fn case_day(w: &Walker, use_dt: bool, acc: &mut Acc) {
    acc.transitions += 3;
    acc.states += 1;
    let (ey, em, ed) = (w.disp_year(), w.m, w.d);
    if w.d == 1 || w.d >= 28 {
        acc.nontrivial += 1;
    }
    let case = || json!({"day": w.day, "datetime": use_dt});
    let ts = (w.day - cal::DAYS_TO_1970) * 86_400;
    let got = if use_dt {
        call(|| DateTime::from_timestamp(ts).as_ymd())
    } else {
        match date_from_day(w.day) {
            Out::Val(d) => call(|| d.as_ymd()),
            Out::Err(e) => Out::Err(e),
            Out::Panic(p) => Out::Panic(p),
        }
    };
    match &got {
        Out::Val((y, m, d)) if (*y as i64, *m, *d) == (ey, em, ed) => {}
        other => acc.violation(
            if use_dt { "DateTime::as_ymd" } else { "Date::as_ymd" },
            &format!("readback-{}", region(w.a)),
            case(),
            format!("({}, {}, {})", ey, em, ed),
            other.show(),
        ),
    }
    // from_ymd of the reference date must give the same day again
    let back = if use_dt {
        call_res(|| DateTime::from_ymd(ey as i32, em, ed).map(|v| v.timestamp().div_euclid(86_400) + cal::DAYS_TO_1970))
    } else {
        call_res(|| Date::from_ymd(ey as i32, em, ed).map(|v| date_day(&v)))
    };
    match &back {
        Out::Val(day) if *day == w.day => {}
        other => acc.violation(
            if use_dt { "DateTime::from_ymd" } else { "Date::from_ymd" },
            &format!("roundtrip-{}", region(w.a)),
            case(),
            format!("day {}", w.day),
            other.show(),
        ),
    }
    if w.a <= 0 {
        acc.branch("bc");
    } else {
        acc.branch("ad");
    }
    if w.m == 2 && w.d == 29 {
        acc.branch("leap-day");
    }
    if w.day == -1 || w.day == 0 {
        acc.branch("era-boundary");
    }
}

fn sweep_days(rep: &mut Report, name: &str, lo: i64, hi: i64, use_dt: bool) {
    let n = (hi - lo + 1) as u64;
    rep.sweep_chunked(name, n, "every day number in the range, against the successor walker", |a, b, acc| {
        let mut w = Walker::at(lo + a as i64);
        // the closed form must itself agree with the walker at every step (model self-check)
        for i in a..b {
            let day = lo + i as i64;
            if cal::civil_from_days(day) != (w.a, w.m, w.d) || cal::days_from_civil(w.a, w.m, w.d) != day || cal::weekday(day) != w.wd {
                acc.violation("harness", "refmodel-walker-disagrees", json!({"day": day}), format!("{:?}", w), format!("{:?}", cal::civil_from_days(day)));
            }
            case_day(&w, use_dt, acc);
            // purity probe: a fixed anchor day is read back after every day of the sweep; whatever the
            // sweep's calls leave behind (a memo, a cache, a scratch value) must not change its answer
            anchor_probe(day, use_dt, acc);
            if i % 200_000_003 == 0 {
                acc.sample(json!({"op": "as_ymd/from_ymd", "day": day, "date": [w.disp_year(), w.m, w.d]}));
            }
            w.step();
        }
    });
}

/// one (year, month, day) triple: Ok with the reference day iff valid and in range, else Err(OutOfRange)
fn case_triple(y: i32, m: u32, d: u32, use_dt: bool, acc: &mut Acc) {
    acc.transitions += 1;
    acc.states += 1;
    let expect = cal::valid_day(y as i64, m, d);
    let op = if use_dt { "DateTime::from_ymd" } else { "Date::from_ymd" };
    let case = || json!({"y": y, "m": m, "d": d, "datetime": use_dt});
    let got: Out<Result<i64, bool>> = call(|| {
        let r = if use_dt {
            DateTime::from_ymd(y, m, d).map(|v| v.timestamp().div_euclid(86_400) + cal::DAYS_TO_1970)
        } else {
            Date::from_ymd(y, m, d).map(|v| date_day(&v))
        };
        r.map_err(|e| matches!(e, AstrolabeError::OutOfRange(_)))
    });
    match (expect, &got) {
        (Some(day), Out::Val(Ok(g))) if *g == day => acc.branch("triple-valid"),
        (None, Out::Val(Err(true))) => {
            acc.branch("triple-refused");
            acc.nontrivial += 1;
        }
        (Some(day), other) => {
            let a = cal::astro(y as i64).unwrap();
            acc.violation(op, &format!("valid-triple-{}", region(a)), case(), format!("Ok(day {})", day), format!("{:?}", other))
        }
        (None, other) => acc.violation(op, "invalid-triple-accepted-or-wrong-error", case(), "Err(OutOfRange)".into(), format!("{:?}", other)),
    }
}

fn sweep_triples(rep: &mut Report, name: &str, years: &[(i64, i64)], use_dt: bool) {
    // index space: concatenation of inclusive year ranges x 14 months x 33 days
    let mut offs = vec![];
    let mut total = 0u64;
    for (lo, hi) in years {
        offs.push(total);
        total += (hi - lo + 1) as u64;
    }
    let per_year = 14 * 33u64;
    rep.sweep(name, total * per_year, "year x month 0..=13 x day 0..=32", |i, acc| {
        let yi = i / per_year;
        let r = i % per_year;
        let k = match offs.binary_search(&yi) {
            Ok(k) => k,
            Err(k) => k - 1,
        };
        let y = years[k].0 + (yi - offs[k]) as i64;
        let (m, d) = ((r / 33) as u32, (r % 33) as u32);
        case_triple(y as i32, m, d, use_dt, acc);
        if i % 1_000_000_007 == 0 {
            acc.sample(json!({"op": "from_ymd", "triple": [y, m, d], "valid": cal::valid_day(y, m, d).is_some()}));
        }
    });
}

/// read a day back immediately after reading back another day (same thread): the answer must not
/// depend on the question asked before
fn case_day_after(pred: i64, day: i64, use_dt: bool, acc: &mut Acc) {
    if !(cal::MIN_DAY..=cal::MAX_DAY).contains(&pred) {
        return;
    }
    let read = |d: i64| -> Out<(i32, u32, u32)> {
        let ts = (d - cal::DAYS_TO_1970) * 86_400;
        if use_dt {
            call(|| DateTime::from_timestamp(ts).as_ymd())
        } else {
            match date_from_day(d) {
                Out::Val(x) => call(|| x.as_ymd()),
                Out::Err(e) => Out::Err(e),
                Out::Panic(p) => Out::Panic(p),
            }
        }
    };
    acc.transitions += 2;
    acc.states += 1;
    // the sweep evaluates the whole case of the predecessor (read back and construct) before the anchor
    case_day(&Walker::at(pred), use_dt, &mut Acc::default());
    let _ = read(pred);
    let got = read(day);
    let (ey, em, ed) = cal::ymd(day);
    match &got {
        Out::Val((y, m, d)) if (*y as i64, *m, *d) == (ey, em, ed) => acc.branch("read-after-another-day"),
        other => acc.violation(if use_dt { "DateTime::as_ymd" } else { "Date::as_ymd" }, "readback-depends-on-the-previous-call", json!({"day": day, "pred": pred, "datetime": use_dt}), format!("({}, {}, {})", ey, em, ed), other.show()),
    }
}

/// the setters are a second way to "construct from a triple": at the two partial months at the ends
/// of the range every candidate day / month / day of year must give exactly that date or be refused
fn case_end_setter(day: i64, setter: u8, v: u32, use_dt: bool, acc: &mut Acc) {
    let (y, m, d) = cal::ymd(day);
    let want: Option<i64> = match setter {
        0 => cal::valid_day(y, m, v),
        1 => cal::valid_day(y, v, d),
        _ => cal::astro(y).and_then(|a| {
            let t = cal::days_from_civil(a, 1, 1) + v as i64 - 1;
            (v >= 1 && v <= cal::year_len(a) && (cal::MIN_DAY..=cal::MAX_DAY).contains(&t)).then_some(t)
        }),
    };
    acc.transitions += 1;
    acc.states += 1;
    let ts = (day - cal::DAYS_TO_1970) * 86_400;
    let got: Out<Option<i64>> = if use_dt {
        let x = DateTime::from_timestamp(ts);
        call(|| match setter { 0 => x.set_day(v), 1 => x.set_month(v), _ => x.set_day_of_year(v) }.ok().map(|r| r.timestamp().div_euclid(86_400) + cal::DAYS_TO_1970))
    } else {
        let x = Date::from_timestamp(ts);
        call(|| match setter { 0 => x.set_day(v), 1 => x.set_month(v), _ => x.set_day_of_year(v) }.ok().map(|r| date_day(&r)))
    };
    if got == Out::Val(want) {
        acc.branch(if want.is_some() { "end-setter-accepted" } else { "end-setter-refused" });
    } else {
        acc.violation(&format!("{}::set_{}", if use_dt { "DateTime" } else { "Date" }, ["day", "month", "day_of_year"][setter as usize]), "range-end-triple-accepted-or-wrong-day", json!({"end_setter": setter, "day": day, "v": v, "datetime": use_dt}), format!("{:?}", want), got.show());
    }
}

const ANCHOR_DAY: i64 = 738_276; // 2022-05-02
fn anchor_probe(pred: i64, use_dt: bool, acc: &mut Acc) {
    let ts = (ANCHOR_DAY - cal::DAYS_TO_1970) * 86_400;
    let got = if use_dt { call(|| DateTime::from_timestamp(ts).as_ymd()) } else { call(|| Date::from_timestamp(ts).as_ymd()) };
    acc.transitions += 1;
    if got != Out::Val((2022, 5, 2)) {
        acc.violation(if use_dt { "DateTime::as_ymd" } else { "Date::as_ymd" }, "readback-depends-on-the-previous-call", json!({"day": ANCHOR_DAY, "pred": pred, "datetime": use_dt}), "(2022, 5, 2)".into(), got.show());
    }
    // and in the other direction: a leap day that exists and one that does not (after every fourth
    // day of the sweep - still several days of every month of every year)
    if pred.rem_euclid(4) != 0 {
        return;
    }
    acc.transitions += 2;
    let made = if use_dt { call(|| (DateTime::from_ymd(2024, 2, 29).is_ok(), DateTime::from_ymd(2023, 2, 29).is_ok())) } else { call(|| (Date::from_ymd(2024, 2, 29).is_ok(), Date::from_ymd(2023, 2, 29).is_ok())) };
    if made != Out::Val((true, false)) {
        acc.violation(if use_dt { "DateTime::from_ymd" } else { "Date::from_ymd" }, "construction-depends-on-the-previous-call", json!({"day": ANCHOR_DAY, "pred": pred, "datetime": use_dt}), "2024-02-29 accepted, 2023-02-29 refused".into(), made.show());
    }
}

pub fn run(ctx: &Ctx) -> i32 {
    let mut rep = Report::new(ctx);
    rep.rule = "states = distinct day numbers / (y,m,d) triples enumerated; transitions = real from_timestamp/as_ymd/from_ymd calls compared with the walker / validity oracle; non-trivial = days at month boundaries (d = 1 or >= 28) plus invalid triples (refusal expected)".into();
    rep.assumptions = vec![
        "a day number is reached through Date/DateTime::from_timestamp and read through timestamp() (bound to the model by C03)".into(),
        "reference calendar: month-length table + Gregorian leap rule walker, cross-checked against the Hinnant closed forms at every enumerated day".into(),
    ];
    rep.require(&["bc", "ad", "leap-day", "era-boundary", "triple-valid", "triple-refused", "read-after-another-day"]);
    let full = (cal::MIN_DAY, cal::MAX_DAY);
    let checked = crate::engine::PROFILE == "checked";
    // (a) day numbers
    if ctx.thorough || checked {
        sweep_days(&mut rep, "days:all-2^32:Date", full.0, full.1, false);
    } else {
        for (k, (lo, hi)) in ab::windows().into_iter().enumerate() {
            sweep_days(&mut rep, &format!("days:window{}:Date", k), lo, hi, false);
        }
    }
    if ctx.thorough {
        sweep_days(&mut rep, "days:all-2^32:DateTime", full.0, full.1, true);
    } else {
        for (k, (lo, hi)) in ab::windows().into_iter().enumerate() {
            sweep_days(&mut rep, &format!("days:window{}:DateTime", k), lo, hi, true);
        }
    }
    // (a2) history independence: landmark days right after a day at one of the code's own distances
    let hdays: Vec<i64> = ab::days_b().into_iter().chain([0, 1, 730_179, 719_162, 719_468, 146_097, -146_097]).collect();
    let dist = ab::dist_b();
    let (nh, ndist) = (hdays.len() as u64, dist.len() as u64);
    rep.sweep("days read back right after another day: landmark days x DIST_B x {Date, DateTime}", nh * ndist * 2, "distances are the epoch shifts and cycle lengths that occur in the conversion code", |i, acc| {
        let d = hdays[(i / 2 % nh) as usize];
        case_day_after(d + dist[(i / (2 * nh)) as usize], d, i % 2 == 1, acc);
    });
    // (a3) the setters at both ends of the range (the partial first and last month / year)
    let ends: Vec<i64> = (0..40).map(|k| cal::MIN_DAY + k).chain((0..40).map(|k| cal::MAX_DAY - k)).chain([cal::MIN_DAY + 192, cal::MAX_DAY - 193, cal::MAX_DAY - 400, cal::MIN_DAY + 400]).collect();
    let ne = ends.len() as u64;
    rep.sweep("setters at the range ends: 84 days x {set_day 0..=32, set_month 0..=13, set_day_of_year 0..=367} x {Date, DateTime}", ne * (33 + 14 + 368) * 2, "", |i, acc| {
        let use_dt = i % 2 == 1;
        let r = i / 2;
        let day = ends[(r / 415) as usize];
        let k = r % 415;
        let (setter, v) = if k < 33 { (0u8, k as u32) } else if k < 47 { (1, (k - 33) as u32) } else { (2, (k - 47) as u32) };
        case_end_setter(day, setter, v, use_dt, acc);
    });
    // (b) triples
    if ctx.thorough && checked {
        sweep_triples(&mut rep, "triples:all-years:Date", &[(-5_879_612, 5_879_612)], false);
        sweep_triples(&mut rep, "triples:all-years:DateTime", &[(-5_879_612, 5_879_612)], true);
    } else {
        let mut yrs: Vec<(i64, i64)> = ab::landmark_years().iter().map(|&y| (y - 2, y + 2)).collect();
        yrs.extend([(-8, 8), (1894, 1907), (1994, 2007), (2014, 2027), (2094, 2103), (-5_879_613, -5_879_607), (5_879_607, 5_879_613)]);
        yrs.push((i32::MIN as i64, i32::MIN as i64 + 2));
        yrs.push((i32::MAX as i64 - 2, i32::MAX as i64));
        sweep_triples(&mut rep, "triples:landmark-years:Date", &yrs, false);
        sweep_triples(&mut rep, "triples:landmark-years:DateTime", &yrs, true);
    }
    rep.finish()
}

pub fn replay(op: &str, case: &Value, acc: &mut Acc) -> bool {
    let use_dt = case["datetime"].as_bool().unwrap_or(false);
    if let (Some(setter), Some(day), Some(v)) = (case["end_setter"].as_u64(), case["day"].as_i64(), case["v"].as_u64()) {
        case_end_setter(day, setter as u8, v as u32, use_dt, acc);
        return true;
    }
    if let (Some(day), Some(pred)) = (case["day"].as_i64(), case["pred"].as_i64()) {
        case_day_after(pred, day, use_dt, acc);
        return true;
    }
    if let Some(day) = case["day"].as_i64() {
        case_day(&Walker::at(day), use_dt, acc);
        return true;
    }
    if let (Some(y), Some(m), Some(d)) = (case["y"].as_i64(), case["m"].as_u64(), case["d"].as_u64()) {
        case_triple(y as i32, m as u32, d as u32, use_dt, acc);
        return true;
    }
    let _ = op;
    false
}
