//! C10 — an offset changes how an instant is read, never which instant it is (E1).
use crate::alphabets as ab;
use crate::engine::{call, Acc, Ctx, Out, Report, PROFILE};
use crate::real::{dt_from, dt_from_off, off_secs, time_from};
use crate::refmodel::calendar as cal;
use crate::refmodel::fields;
use crate::refmodel::format::{render, Kind};
use crate::refmodel::instant as ins;
use astrolabe::{DateTime, DateUtilities, Offset, OffsetUtilities, TimeUtilities};
use serde_json::{json, Value};
use std::cmp::Ordering;

const PATTERN: &str = "yyyy MM dd HH mm ss nnnnn xxxxx X";

fn getters(v: &DateTime) -> [i64; 11] {
    [v.year() as i64, v.month() as i64, v.day() as i64, v.day_of_year() as i64, v.weekday() as i64, v.hour() as i64, v.minute() as i64, v.second() as i64, v.milli() as i64, v.micro() as i64, v.nano() as i64]
}

fn oclass(o: i32) -> &'static str {
    if o % 3600 == 0 {
        "whole-hour-offset"
    } else if o % 60 == 0 {
        "whole-minute-offset"
    } else {
        "offset-with-seconds"
    }
}

fn case_dt(day: i64, nod: u64, prev: i32, o: i32, partner: (i64, u64), deep: bool, acc: &mut Acc) {
    let x = match dt_from_off(day, nod, prev) {
        Some(x) => x,
        None => return,
    };
    let p = match dt_from(partner.0, partner.1) {
        Some(p) => p,
        None => return,
    };
    acc.transitions += 4;
    acc.states += 1;
    let inst = ins::join(day, nod);
    let local = inst + o as i128 * ins::NS;
    let case = || json!({"kind": "dt", "day": day, "nod": nod.to_string(), "prev": prev, "o": o, "partner": [partner.0, partner.1.to_string()], "deep": deep});
    // ---- set_offset
    let got = call(|| {
        let y = x.set_offset(Offset::Fixed(o));
        (y.timestamp(), off_secs(y.get_offset()), y == x, y.cmp(&x), y.cmp(&p), y.nanos_since(&p), getters(&y), if deep { y.format(PATTERN) } else { String::new() }, if deep { [y.days_since(&p) as i128, y.hours_since(&p) as i128, y.minutes_since(&p) as i128, y.seconds_since(&p) as i128, y.millis_since(&p), y.micros_since(&p), y.months_since(&p) as i128 - x.set_offset(Offset::Fixed(0)).months_since(&p) as i128, y.years_since(&p) as i128 - x.set_offset(Offset::Fixed(0)).years_since(&p) as i128] } else { [0; 8] })
    });
    let pinst = ins::join(partner.0, partner.1);
    match &got {
        Out::Val((ts, go, eq, c0, cp, ns, g, fm, sinces)) => {
            if *ts != ins::unix_secs(inst) || *go != o || !*eq || *c0 != Ordering::Equal || *cp != inst.cmp(&pinst) || *ns != inst - pinst {
                acc.violation("DateTime::set_offset", &format!("instant-changed-{}", oclass(o)), case(), format!("timestamp {} offset {} equal to original, cmp partner {:?}, nanos_since {}", ins::unix_secs(inst), o, inst.cmp(&pinst), inst - pinst), format!("timestamp {} offset {} eq {} cmp {:?}/{:?} nanos_since {}", ts, go, eq, c0, cp, ns));
            }
            if *g != fields::all_getters(local) {
                acc.violation("DateTime getters after set_offset", &format!("getters-{}", oclass(o)), case(), format!("{:?}", fields::all_getters(local)), format!("{:?}", g));
            }
            if deep {
                acc.transitions += 7;
                let want = render(Kind::DateTime, PATTERN, local, o).unwrap();
                if *fm != want {
                    acc.violation("DateTime::format after set_offset", &format!("format-{}", oclass(o)), case(), want, fm.clone());
                }
                // every symbol also on its own (a formatter may treat a pattern differently depending on which fields it contains)
                let y = x.set_offset(Offset::Fixed(o));
                for sym in ["G", "y", "q", "M", "w", "d", "D", "e", "a", "b", "h", "H", "K", "k", "m", "s", "n", "x", "qqq HH:mm", "HH:mm q"] {
                    if let Some(w) = render(Kind::DateTime, sym, local, o) {
                        acc.transitions += 1;
                        let g = call(|| y.format(sym));
                        if g != Out::Val(w.clone()) {
                            acc.violation("DateTime::format after set_offset", &format!("single-symbol-{}-{}", sym.chars().next().unwrap(), oclass(o)), case(), format!("{:?} -> {}", sym, w), g.show());
                        }
                    }
                }
                let d = inst - pinst;
                // months / years: the value under the offset minus the value at offset 0 must be 0
                let ws = [d / crate::props::c04::UNITS[0].1, d / crate::props::c04::UNITS[1].1, d / crate::props::c04::UNITS[2].1, d / crate::props::c04::UNITS[3].1, d / crate::props::c04::UNITS[4].1, d / crate::props::c04::UNITS[5].1, 0, 0];
                if *sinces != ws {
                    acc.violation("DateTime::*_since after set_offset", "differences-changed", case(), format!("{:?}", ws), format!("{:?}", sinces));
                }
            }
            if ins::split(local).0 != day {
                acc.branch("local-date-differs-from-utc");
                acc.nontrivial += 1;
            }
            acc.branch("set_offset");
        }
        other => acc.violation("DateTime::set_offset", "panic", case(), "a value".into(), other.show()),
    }
    // ---- history independence on the nanosecond axis: a sibling instant at one of the code's own
    // time units away (same second / minute / hour / day or the next one) is read under the same
    // offset right after the value itself; its fields must be the reference's for the sibling alone
    const NDIST: [i128; 12] = [1, -1, 1_000, -1_000, 1_000_000, 999_999_999, 1_000_000_000, -1_000_000_000, 60_000_000_000, 3_600_000_000_000, 86_400_000_000_000, -86_400_000_000_000];
    let delta = NDIST[((inst + o as i128).rem_euclid(NDIST.len() as i128)) as usize];
    let sib = inst + delta;
    let (sday, snod) = ins::split(sib);
    if ins::representable(sib + o as i128 * ins::NS) && ins::representable(sib) {
        if let Some(sx) = dt_from(sday, snod) {
            acc.transitions += 1;
            let got = call(|| {
                let y = sx.set_offset(Offset::Fixed(o));
                (getters(&y), y.timestamp())
            });
            let want = (fields::all_getters(sib + o as i128 * ins::NS), ins::unix_secs(sib));
            if got != Out::Val(want) {
                acc.violation("DateTime getters after set_offset", "sibling-read-depends-on-the-previous-call", case(), format!("sibling at {} ns: {:?}", delta, want), got.show());
            }
        }
    }
    // ---- as_offset: fields kept (offset-0 receivers), instant moved by -o
    let got = call(|| {
        let before = getters(&x);
        let y = x.as_offset(Offset::Fixed(o));
        (before, getters(&y), y.set_offset(Offset::Fixed(0)).timestamp(), y.set_offset(Offset::Fixed(0)).nano(), off_secs(y.get_offset()))
    });
    let moved = inst - o as i128 * ins::NS;
    match &got {
        Out::Val((before, after, ts, nn, go)) => {
            if *ts != ins::unix_secs(moved) || *nn as i128 != moved.rem_euclid(ins::NS) || *go != o {
                acc.violation("DateTime::as_offset", &format!("instant-not-moved-by-minus-offset-{}", oclass(o)), case(), format!("instant {} offset {}", moved, o), format!("timestamp {} nano {} offset {}", ts, nn, go));
            }
            if prev == 0 && before != after {
                acc.violation("DateTime::as_offset", &format!("fields-not-kept-{}", oclass(o)), case(), format!("{:?}", before), format!("{:?}", after));
            }
            acc.branch("as_offset");
        }
        other => acc.violation("DateTime::as_offset", "panic", case(), "a value".into(), other.show()),
    }
}

fn case_time(nanos: u64, prev: i32, o: i32, acc: &mut Acc) {
    let t = time_from(nanos, prev).unwrap();
    acc.transitions += 2;
    acc.states += 1;
    let day = ab::DAY_NS as i128;
    let case = || json!({"kind": "time", "nanos": nanos.to_string(), "prev": prev, "o": o});
    let g = |x: &astrolabe::Time| [x.hour(), x.minute(), x.second(), x.milli(), x.micro(), x.nano()];
    let got = call(|| {
        let y = t.set_offset(Offset::Fixed(o));
        let z = t.as_offset(Offset::Fixed(o));
        (y.as_nanos(), off_secs(y.get_offset()), y == t, g(&y), y.format("HH:mm:ss.nnnnn xxxxx"), g(&t), z.as_nanos(), off_secs(z.get_offset()), g(&z))
    });
    let local = (nanos as i128 + o as i128 * ins::NS).rem_euclid(day);
    let f = fields::all_getters(1000 * ins::DAY + local);
    let wg = [f[5] as u32, f[6] as u32, f[7] as u32, f[8] as u32, f[9] as u32, f[10] as u32];
    match &got {
        Out::Val((n, go, eq, gy, fm, gt, zn, zo, gz)) => {
            let want_fm = render(Kind::Time, "HH:mm:ss.nnnnn xxxxx", 1000 * ins::DAY + local, o).unwrap();
            if *n != nanos || *go != o || !*eq || *gy != wg || *fm != want_fm {
                acc.violation("Time::set_offset", &format!("reading-{}", oclass(o)), case(), format!("nanos {} offset {} getters {:?} format {}", nanos, o, wg, want_fm), format!("nanos {} offset {} eq {} getters {:?} format {}", n, go, eq, gy, fm));
            }
            let moved = (nanos as i128 - o as i128 * ins::NS).rem_euclid(day) as u64;
            if *zn != moved || *zo != o || (prev == 0 && gz != gt) {
                acc.violation("Time::as_offset", &format!("as-offset-{}", oclass(o)), case(), format!("nanos {} offset {} fields kept {:?}", moved, o, gt), format!("nanos {} offset {} fields {:?}", zn, zo, gz));
            }
            if local as u64 != nanos {
                acc.nontrivial += 1;
            }
            acc.branch("time");
        }
        other => acc.violation("Time::set_offset/as_offset", "panic", case(), "values".into(), other.show()),
    }
}

fn case_offset_roundtrip(o: i32, acc: &mut Acc) {
    acc.transitions += 3;
    acc.states += 1;
    let a = o.unsigned_abs();
    let hms = (o / 3600, a % 3600 / 60, a % 60);
    let got = call(|| {
        let x = Offset::from_seconds(o).map(|v| (v.resolve(), v.resolve_hms())).map_err(|e| e.to_string());
        let y = if o >= 0 || hms.0 != 0 { Some(Offset::from_hms(hms.0, hms.1, hms.2).map(|v| (v.resolve(), v.resolve_hms())).map_err(|e| e.to_string())) } else { None };
        (x, y)
    });
    let want = Ok((o, hms));
    match &got {
        Out::Val((x, y)) if *x == want && (y.is_none() || *y == Some(want.clone())) => acc.branch("offset-roundtrip"),
        other => acc.violation("Offset::from_seconds/from_hms/resolve/resolve_hms", "roundtrip", json!({"kind": "offset", "o": o}), format!("{:?}", want), other.show()),
    }
}

fn case_offset_range(o: i64, acc: &mut Acc) {
    acc.transitions += 1;
    acc.states += 1;
    let got = call(|| Offset::from_seconds(o as i32).is_ok());
    let want = o.abs() <= 86_399;
    if got != Out::Val(want) {
        acc.violation("Offset::from_seconds", "range", json!({"kind": "offset_range", "o": o}), want.to_string(), got.show());
    }
    acc.branch(if want { "offset-accepted" } else { "offset-refused" });
}

pub fn run(ctx: &Ctx) -> i32 {
    let mut rep = Report::new(ctx);
    rep.rule = "states = distinct (instant, previous offset, offset) tuples; transitions = real set_offset / as_offset calls followed by timestamp, ==, cmp, *_since, the 11 getters and format(yyyy MM dd HH mm ss nnnnn xxxxx X), compared with the decomposition of instant + offset; non-trivial = offsets under which the local date differs from the UTC date".into();
    rep.assumptions = vec![
        "instants within two days of the range ends are excluded (the statement's one-day margin, doubled)".into(),
        "as_offset is judged for 'fields kept' only on receivers at offset 0 (the documented use); for other receivers only the instant shift by -offset is judged".into(),
    ];
    rep.require(&["set_offset", "as_offset", "local-date-differs-from-utc", "time", "offset-roundtrip", "offset-accepted", "offset-refused"]);
    let checked = PROFILE == "checked";
    let margin = 2;
    let days: Vec<i64> = ab::days_b_small().into_iter().filter(|d| *d > cal::MIN_DAY + margin && *d < cal::MAX_DAY - margin).chain([cal::MIN_DAY + 3, cal::MAX_DAY - 3]).collect();
    let nanos = [0u64, 1, 999_999_999, 3_599_999_999_999, 43_200_000_000_000, 86_399_000_000_000, ab::DAY_NS - 1];
    let mut inst: Vec<(i64, u64)> = vec![];
    for d in &days {
        for n in &nanos {
            inst.push((*d, *n));
        }
    }
    let ni = inst.len() as u64;
    let partner = (cal::days_from_civil(2000, 1, 1), 12_345_678_901_234u64);
    if ctx.thorough && checked {
        rep.sweep("DateTime: ~450 instants x all 172 799 offsets", ni * 172_799, "complete offset axis; format + all differences on every case", |i, acc| {
            let (d, n) = inst[(i / 172_799) as usize];
            let o = (i % 172_799) as i32 - 86_399;
            case_dt(d, n, if i % 5 == 0 { 3600 } else { 0 }, o, partner, true, acc);
        });
    } else {
        let step: u64 = if ctx.thorough { 7 } else { 60 };
        let cnt = 172_799 / step;
        rep.sweep("DateTime: ~450 instants x offset lattice", ni * cnt, "every whole-minute offset (every 7th second thorough/fast); format on every 8th case", |i, acc| {
            let (d, n) = inst[(i / cnt) as usize];
            let o = ((i % cnt) * step) as i32 - 86_399 + if step == 60 { 59 } else { 0 };
            case_dt(d, n, if i % 5 == 0 { 3600 } else { 0 }, o, partner, i % 8 == 0, acc);
            if i % 5_000_011 == 0 {
                acc.sample(json!({"op": "set_offset/as_offset", "day": d, "nod": n, "offset": o}));
            }
        });
    }
    let ob = ab::offs_b();
    let nob = ob.len() as u64;
    rep.sweep("DateTime: instants x OFFS_B x previous offsets OFFS_B", ni * nob * nob, "boundary offsets incl. seconds; every pair (previous, new)", |i, acc| {
        let (d, n) = inst[(i / (nob * nob)) as usize];
        case_dt(d, n, ob[(i / nob % nob) as usize], ob[(i % nob) as usize], partner, true, acc);
    });
    // Time
    rep.sweep("Time: all 86 400 seconds x OFFS_B", 86_400 * nob, "", |i, acc| case_time((i / nob) * 1_000_000_000 + (i % 3) * 499_999_999, if i % 7 == 0 { -3600 } else { 0 }, ob[(i % nob) as usize], acc));
    let tsub: Vec<u64> = (0..600u64).map(|k| k * 144 * 1_000_000_000 + k * 1_666_667).collect();
    if ctx.thorough && checked {
        rep.sweep("Time: 600 times x all 172 799 offsets", 600 * 172_799, "", |i, acc| case_time(tsub[(i / 172_799) as usize], 0, (i % 172_799) as i32 - 86_399, acc));
    } else {
        rep.sweep("Time: 600 times x whole-minute offsets", 600 * 2_879, "", |i, acc| case_time(tsub[(i / 2_879) as usize], 0, (i % 2_879) as i32 * 60 - 86_340, acc));
    }
    // Offset
    rep.sweep("Offset: from_seconds/from_hms/resolve/resolve_hms round trip on all 172 799 offsets", 172_799, "", |i, acc| case_offset_roundtrip(i as i32 - 86_399, acc));
    if ctx.thorough && checked {
        rep.sweep("Offset::from_seconds: all 2^32 arguments", 1 << 32, "", |i, acc| case_offset_range(i as i64 + i32::MIN as i64, acc));
    } else {
        rep.sweep("Offset::from_seconds: +-200 000 and both i32 ends", 600_000, "", |i, acc| {
            let o = if i < 400_000 { i as i64 - 200_000 } else if i < 500_000 { i32::MIN as i64 + (i - 400_000) as i64 } else { i32::MAX as i64 - (i - 500_000) as i64 };
            case_offset_range(o, acc)
        });
    }
    rep.finish()
}

pub fn replay(_op: &str, case: &Value, acc: &mut Acc) -> bool {
    match case["kind"].as_str() {
        Some("dt") => case_dt(case["day"].as_i64().unwrap(), case["nod"].as_str().unwrap().parse().unwrap(), case["prev"].as_i64().unwrap() as i32, case["o"].as_i64().unwrap() as i32, (case["partner"][0].as_i64().unwrap(), case["partner"][1].as_str().unwrap().parse().unwrap()), true, acc),
        Some("time") => case_time(case["nanos"].as_str().unwrap().parse().unwrap(), case["prev"].as_i64().unwrap() as i32, case["o"].as_i64().unwrap() as i32, acc),
        Some("offset") => case_offset_roundtrip(case["o"].as_i64().unwrap() as i32, acc),
        Some("offset_range") => case_offset_range(case["o"].as_i64().unwrap(), acc),
        _ => return false,
    }
    true
}
