use crate::engine::{Acc, Ctx};
use serde_json::Value;

pub mod c01;

pub fn run(ctx: &Ctx) -> i32 {
    match ctx.prop.as_str() {
        "C01" => c01::run(ctx),
        other => {
            eprintln!("unknown property {}", other);
            2
        }
    }
}

pub fn replay(prop: &str, op: &str, case: &Value, acc: &mut Acc) -> bool {
    match prop {
        "C01" => c01::replay(op, case, acc),
        _ => false,
    }
}
