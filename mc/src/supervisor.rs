//! Supervisor for the fault-enumeration properties (C14, C19) and the cron checks (C16, C17, whose
//! subject can loop for a very long time on an unsatisfiable schedule): the exploration runs in a child
//! process; if the child dies abnormally (abort, stack overflow, allocation failure) or exceeds
//! its wall budget, the chunks the worker threads were executing are re-run one case at a time in
//! trace mode to identify the offending case, which is reported as a violation.
use crate::engine::{Ctx, PROFILE};
use serde_json::json;
use std::process::{Command, Stdio};
use std::time::{Duration, Instant};

fn wait_with_timeout(child: &mut std::process::Child, limit: Duration) -> Option<std::process::ExitStatus> {
    let t0 = Instant::now();
    loop {
        match child.try_wait() {
            Ok(Some(st)) => return Some(st),
            Ok(None) => {
                if t0.elapsed() > limit {
                    let _ = child.kill();
                    let _ = child.wait();
                    return None;
                }
                std::thread::sleep(Duration::from_millis(50));
            }
            Err(_) => return None,
        }
    }
}

pub fn supervise(ctx: &Ctx, args: &[String]) -> i32 {
    let hb = format!("/tmp/mc-hb-{}-{}-{}", ctx.prop, PROFILE, std::process::id());
    let _ = std::fs::remove_dir_all(&hb);
    std::fs::create_dir_all(&hb).expect("heartbeat dir");
    let exe = std::env::current_exe().expect("current exe");
    let limit = Duration::from_secs(if ctx.thorough { 3 * 3600 } else { 900 });
    let mut child = Command::new(&exe).args(&args[1..]).env("MC_CHILD", "1").env("MC_HB_DIR", &hb).stdin(Stdio::null()).spawn().expect("spawn child");
    let status = wait_with_timeout(&mut child, limit);
    let normal = matches!(status.and_then(|s| s.code()), Some(0) | Some(1) | Some(2));
    if normal {
        let _ = std::fs::remove_dir_all(&hb);
        return status.unwrap().code().unwrap();
    }
    let why = match status {
        None => "hang (wall budget exceeded)".to_string(),
        Some(s) => format!("process died: {:?}", s),
    };
    eprintln!("[{} {}] supervisor: child ended abnormally ({}); tracing the chunks in flight", ctx.prop, PROFILE, why);
    // candidate chunks
    let mut chunks: Vec<(String, u64, u64)> = vec![];
    if let Ok(rd) = std::fs::read_dir(&hb) {
        for e in rd.flatten() {
            if let Ok(t) = std::fs::read_to_string(e.path()) {
                let p: Vec<&str> = t.split('\t').collect();
                if p.len() == 3 {
                    if let (Ok(lo), Ok(hi)) = (p[1].parse(), p[2].parse()) {
                        chunks.push((p[0].to_string(), lo, hi));
                    }
                }
            }
        }
    }
    chunks.sort();
    chunks.dedup();
    let mut classes = vec![];
    std::fs::create_dir_all(&ctx.replay_dir).ok();
    for (k, (space, lo, hi)) in chunks.iter().enumerate() {
        let _ = std::fs::remove_file(format!("{}/trace", hb));
        let mut c = Command::new(&exe).args(&args[1..]).env("MC_CHILD", "1").env("MC_HB_DIR", &hb).env("MC_TRACE", format!("{}\t{}\t{}", space, lo, hi)).stdin(Stdio::null()).spawn().expect("spawn trace child");
        let st = wait_with_timeout(&mut c, Duration::from_secs(600));
        let ok = matches!(st.and_then(|s| s.code()), Some(0) | Some(1) | Some(2));
        if ok {
            continue;
        }
        let last = std::fs::read_to_string(format!("{}/trace", hb)).unwrap_or_default();
        let idx = last.split('\t').nth(1).and_then(|x| x.parse::<u64>().ok());
        let case = json!({"kind": "indexed", "space": space, "index": idx, "tier": if ctx.thorough { "thorough" } else { "quick" }});
        let path = format!("{}/{}-{}-process-abort-{}.json", ctx.replay_dir, ctx.prop, PROFILE, k);
        let body = json!({"property": ctx.prop, "profile": PROFILE, "op": "process", "class": "abort-or-hang", "case": case, "expected": "Ok / Err / String", "observed": why});
        std::fs::write(&path, serde_json::to_string_pretty(&body).unwrap()).ok();
        classes.push(json!({"op": "process", "class": "abort-or-hang", "count": 1, "examples": [{"replay": path, "case": case, "expected": "Ok / Err / String", "observed": why}]}));
    }
    let mut machinery = vec![];
    if classes.is_empty() {
        // killed by the wall budget or by a signal: the subject hung or aborted but the case could not be
        // located (e.g. inside the stateright search, which has no trace mode). Still a verdict.
        let by_signal_or_timeout = status.map_or(true, |s| s.code().is_none());
        if by_signal_or_timeout {
            let case = json!({"kind": "unlocated", "why": why});
            let path = format!("{}/{}-{}-process-abort-unlocated.json", ctx.replay_dir, ctx.prop, PROFILE);
            let body = json!({"property": ctx.prop, "profile": PROFILE, "op": "process", "class": "abort-or-hang-not-located", "case": case, "expected": "the exploration terminates", "observed": why});
            std::fs::write(&path, serde_json::to_string_pretty(&body).unwrap()).ok();
            classes.push(json!({"op": "process", "class": "abort-or-hang-not-located", "count": 1, "examples": [{"replay": path, "case": case, "expected": "the exploration terminates", "observed": why}]}));
        } else {
            machinery.push(format!("child ended abnormally ({}) and no chunk reproduced it in trace mode", why));
        }
    }
    let result = json!({
        "property": ctx.prop, "tier": if ctx.thorough { "thorough" } else { "quick" }, "profile": PROFILE, "seed": ctx.seed,
        "wall_s": ctx.started.elapsed().as_secs_f64(), "states": 0, "transitions": 0, "distinct_nontrivial": 0,
        "branches": {}, "spaces": [], "samples": [], "rule": "supervisor result after an abnormal child exit", "assumptions": [],
        "violation_classes": classes, "machinery_errors": machinery, "extra": {},
    });
    std::fs::write(&ctx.out, serde_json::to_string_pretty(&result).unwrap()).expect("write result");
    let _ = std::fs::remove_dir_all(&hb);
    if machinery.is_empty() { 1 } else { 2 }
}
