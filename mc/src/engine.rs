//! Shared plumbing: run context, parallel sweeps, outcome capture, violation classes,
//! per-run result file. Nothing in here decides a property.

use serde_json::{json, Value};
use std::collections::BTreeMap;
use std::panic::{catch_unwind, AssertUnwindSafe};
use std::sync::atomic::{AtomicU64, Ordering};
use std::sync::Mutex;
use std::time::Instant;

pub const PROFILE: &str = if cfg!(debug_assertions) { "checked" } else { "fast" };

#[derive(Clone)]
pub struct Ctx {
    pub prop: String,
    pub thorough: bool,
    pub seed: u64,
    pub out: String,
    pub replay_dir: String,
    pub threads: usize,
    pub started: Instant,
    /// supervised runs (E3): directory where worker threads record the chunk they are working on
    pub hb_dir: Option<String>,
    /// trace mode (E3, after a crash): run only [lo, hi) of the named space, single-threaded,
    /// recording every index before it is executed
    pub trace: Option<(String, u64, u64)>,
}

/// Outcome of one call on the real implementation.
#[derive(Clone, Debug, PartialEq, Eq)]
pub enum Out<T> {
    Val(T),
    Err(String),
    Panic(String),
}

impl<T: std::fmt::Debug> Out<T> {
    pub fn show(&self) -> String {
        match self {
            Out::Val(v) => format!("{:?}", v),
            Out::Err(e) => format!("Err({})", e),
            Out::Panic(m) => format!("PANIC({})", m),
        }
    }
}

pub fn silence_panics() {
    std::panic::set_hook(Box::new(|_| {}));
}

fn panic_text(p: Box<dyn std::any::Any + Send>) -> String {
    if let Some(s) = p.downcast_ref::<&str>() {
        s.to_string()
    } else if let Some(s) = p.downcast_ref::<String>() {
        s.clone()
    } else {
        "<non-string panic>".to_string()
    }
}

/// Run an infallible API call, catching a panic.
pub fn call<T>(f: impl FnOnce() -> T) -> Out<T> {
    match catch_unwind(AssertUnwindSafe(f)) {
        Ok(v) => Out::Val(v),
        Err(p) => Out::Panic(panic_text(p)),
    }
}

/// Run a fallible API call, catching a panic.
pub fn call_res<T, E: std::fmt::Display>(f: impl FnOnce() -> Result<T, E>) -> Out<T> {
    match catch_unwind(AssertUnwindSafe(f)) {
        Ok(Ok(v)) => Out::Val(v),
        Ok(Err(e)) => Out::Err(e.to_string()),
        Err(p) => Out::Panic(panic_text(p)),
    }
}

#[derive(Clone, Debug)]
pub struct Violation {
    pub op: String,
    pub class: String,
    pub case: Value,
    pub expected: String,
    pub observed: String,
}

const KEEP_PER_CLASS: usize = 3;
const VIOLATION_CAP: u64 = 200_000;

/// Per-thread accumulator, merged into the global report at the end of a shard.
#[derive(Default)]
pub struct Acc {
    pub transitions: u64,
    pub states: u64,
    pub nontrivial: u64,
    pub branches: BTreeMap<&'static str, u64>,
    pub classes: BTreeMap<(String, String), (u64, Vec<Violation>)>,
    pub samples: Vec<Value>,
}

impl Acc {
    #[inline]
    pub fn branch(&mut self, name: &'static str) {
        *self.branches.entry(name).or_insert(0) += 1;
    }
    #[inline]
    pub fn branch_n(&mut self, name: &'static str, n: u64) {
        *self.branches.entry(name).or_insert(0) += n;
    }
    pub fn violation(&mut self, op: &str, class: &str, case: Value, expected: String, observed: String) {
        let e = self.classes.entry((op.to_string(), class.to_string())).or_insert((0, vec![]));
        e.0 += 1;
        if e.1.len() < KEEP_PER_CLASS {
            e.1.push(Violation { op: op.to_string(), class: class.to_string(), case, expected, observed });
        }
    }
    pub fn sample(&mut self, v: Value) {
        if self.samples.len() < 4 {
            self.samples.push(v);
        }
    }
    pub fn merge(&mut self, o: Acc) {
        self.transitions += o.transitions;
        self.states += o.states;
        self.nontrivial += o.nontrivial;
        for (k, v) in o.branches {
            *self.branches.entry(k).or_insert(0) += v;
        }
        for (k, (n, ex)) in o.classes {
            let e = self.classes.entry(k).or_insert((0, vec![]));
            e.0 += n;
            for x in ex {
                if e.1.len() < KEEP_PER_CLASS {
                    e.1.push(x);
                }
            }
        }
        for s in o.samples {
            if self.samples.len() < 12 {
                self.samples.push(s);
            }
        }
    }
}

/// One named sub-space of a check (for the evidence file).
#[derive(Clone, Debug)]
pub struct Space {
    pub name: String,
    pub size: u64,
    pub exhaustive: bool,
    pub wall_s: f64,
    pub note: String,
}

pub struct Report {
    pub ctx: Ctx,
    pub acc: Acc,
    pub spaces: Vec<Space>,
    pub required_branches: Vec<&'static str>,
    pub machinery_errors: Vec<String>,
    pub rule: String,
    pub assumptions: Vec<String>,
    pub extra: BTreeMap<String, Value>,
}

impl Report {
    pub fn new(ctx: &Ctx) -> Self {
        Report {
            ctx: ctx.clone(),
            acc: Acc::default(),
            spaces: vec![],
            required_branches: vec![],
            machinery_errors: vec![],
            rule: String::new(),
            assumptions: vec![],
            extra: BTreeMap::new(),
        }
    }

    pub fn require(&mut self, names: &[&'static str]) {
        self.required_branches.extend_from_slice(names);
    }

    /// Parallel sweep over `0..n` indices in chunks; `f(index, acc)` is the per-case body.
    pub fn sweep(&mut self, name: &str, n: u64, note: &str, f: impl Fn(u64, &mut Acc) + Sync) {
        self.sweep_chunked(name, n, note, |lo, hi, acc| {
            for i in lo..hi {
                f(i, acc);
            }
        });
    }

    /// Parallel sweep where the body receives a whole chunk `[lo, hi)` (lets the body carry a
    /// walker along the chunk).
    pub fn sweep_chunked(&mut self, name: &str, n: u64, note: &str, f: impl Fn(u64, u64, &mut Acc) + Sync) {
        let t0 = Instant::now();
        if let Some((space, lo, hi)) = self.ctx.trace.clone() {
            if space == name {
                let dir = self.ctx.hb_dir.clone().unwrap_or_else(|| "/tmp".into());
                let mut acc = Acc::default();
                for i in lo..hi.min(n) {
                    std::fs::write(format!("{}/trace", dir), format!("{}\t{}", name, i)).ok();
                    f(i, i + 1, &mut acc);
                }
                std::fs::write(format!("{}/trace", dir), format!("{}\tdone", name)).ok();
                self.acc.merge(acc);
            }
            return;
        }
        let hb_dir = self.ctx.hb_dir.clone();
        let hb_slot = AtomicU64::new(0);
        let threads = self.ctx.threads.max(1);
        let chunk = ((n / (threads as u64 * 64)).max(1)).min(1 << 20);
        let next = AtomicU64::new(0);
        let total = Mutex::new(Acc::default());
        // a space is abandoned (and reported as not exhaustive) once it has produced this many
        // violating cases: the verdict is already "violated", and panicking cases are slow
        let seen_violations = AtomicU64::new(0);
        let stopped = std::sync::atomic::AtomicBool::new(false);
        std::thread::scope(|s| {
            for _ in 0..threads {
                s.spawn(|| {
                    let _pin = pin_foreign_chunks();
                    let mut acc = Acc::default();
                    let mut mine = 0u64;
                    let slot = hb_slot.fetch_add(1, Ordering::Relaxed);
                    loop {
                        if seen_violations.load(Ordering::Relaxed) > VIOLATION_CAP {
                            stopped.store(true, Ordering::Relaxed);
                            break;
                        }
                        let lo = next.fetch_add(chunk, Ordering::Relaxed);
                        if lo >= n {
                            break;
                        }
                        let hi = (lo + chunk).min(n);
                        if let Some(dir) = &hb_dir {
                            std::fs::write(format!("{}/t{}", dir, slot), format!("{}\t{}\t{}", name, lo, hi)).ok();
                        }
                        let r = catch_unwind(AssertUnwindSafe(|| f(lo, hi, &mut acc)));
                        if let Err(p) = r {
                            acc.violation(
                                "harness",
                                "harness-panic",
                                json!({"space": name, "chunk": [lo, hi]}),
                                "no panic outside catch_unwind".into(),
                                panic_text(p),
                            );
                        }
                        let now: u64 = acc.classes.values().map(|(c, _)| *c).sum();
                        seen_violations.fetch_add(now - mine, Ordering::Relaxed);
                        mine = now;
                    }
                    total.lock().unwrap().merge(acc);
                });
            }
        });
        let acc = total.into_inner().unwrap();
        self.acc.merge(acc);
        let was_stopped = stopped.load(Ordering::Relaxed);
        self.spaces.push(Space {
            name: name.to_string(),
            size: n,
            exhaustive: !was_stopped,
            wall_s: t0.elapsed().as_secs_f64(),
            note: if was_stopped { format!("{} -- ABANDONED after more than {} violating cases (space not completed)", note, VIOLATION_CAP) } else { note.to_string() },
        });
        eprintln!("[{} {}] space {:<40} n={:<14} {:.1}s", self.ctx.prop, PROFILE, name, n, t0.elapsed().as_secs_f64());
    }

    /// Finish: write replay files and the per-run result JSON. Returns the process exit code
    /// (0 = no violation classes, 1 = violations, 2 = machinery error).
    pub fn finish(mut self) -> i32 {
        for b in &self.required_branches {
            if self.acc.branches.get(b).copied().unwrap_or(0) == 0 {
                self.machinery_errors.push(format!("vacuity: oracle branch '{}' was never reached", b));
            }
        }
        let harness_fail = self.acc.classes.keys().any(|(op, _)| op == "harness");
        if harness_fail {
            self.machinery_errors.push("harness panic outside catch_unwind (see classes)".into());
        }
        let cf = crate::real::CONSTRUCT_FAILED.load(Ordering::Relaxed);
        self.extra.insert("value_constructions_failed_readback".into(), json!(cf));
        if cf > 0 {
            eprintln!("NOTE {}: {} in-range DateTime values could not be built through from_timestamp + set_nano or did not read back through timestamp() + nano(); the cases using them were skipped here - C03 judges this", self.ctx.prop, cf);
        }
        std::fs::create_dir_all(&self.ctx.replay_dir).ok();
        let mut classes = vec![];
        for ((op, class), (count, examples)) in &self.acc.classes {
            let mut exs = vec![];
            for (i, v) in examples.iter().enumerate() {
                let safe: String = format!("{}-{}-{}-{}-{}", self.ctx.prop, PROFILE, op, class, i)
                    .chars()
                    .map(|c| if c.is_ascii_alphanumeric() || c == '-' || c == '_' { c } else { '_' })
                    .collect();
                let path = format!("{}/{}.json", self.ctx.replay_dir, safe);
                let body = json!({
                    "property": self.ctx.prop, "profile": PROFILE, "op": v.op, "class": v.class,
                    "case": v.case, "expected": v.expected, "observed": v.observed,
                });
                std::fs::write(&path, serde_json::to_string_pretty(&body).unwrap()).ok();
                exs.push(json!({"replay": path, "case": v.case, "expected": v.expected, "observed": v.observed}));
            }
            classes.push(json!({"op": op, "class": class, "count": count, "examples": exs}));
        }
        let spaces: Vec<Value> = self
            .spaces
            .iter()
            .map(|s| json!({"name": s.name, "size": s.size, "exhaustive": s.exhaustive, "wall_s": (s.wall_s*100.0).round()/100.0, "note": s.note}))
            .collect();
        let branches: BTreeMap<String, u64> = self.acc.branches.iter().map(|(k, v)| (k.to_string(), *v)).collect();
        let result = json!({
            "property": self.ctx.prop,
            "tier": if self.ctx.thorough { "thorough" } else { "quick" },
            "profile": PROFILE,
            "seed": self.ctx.seed,
            "wall_s": self.ctx.started.elapsed().as_secs_f64(),
            "states": self.acc.states,
            "transitions": self.acc.transitions,
            "distinct_nontrivial": self.acc.nontrivial,
            "branches": branches,
            "spaces": spaces,
            "samples": self.acc.samples,
            "rule": self.rule,
            "assumptions": self.assumptions,
            "violation_classes": classes,
            "machinery_errors": self.machinery_errors,
            "extra": self.extra,
        });
        std::fs::write(&self.ctx.out, serde_json::to_string_pretty(&result).unwrap()).expect("write result");
        if !self.machinery_errors.is_empty() {
            for m in &self.machinery_errors {
                eprintln!("MACHINERY-ERROR {}", m);
            }
            return 2;
        }
        if self.acc.classes.is_empty() {
            0
        } else {
            1
        }
    }
}

/// glibc keeps freed chunks in a per-thread cache regardless of the arena they came from. A worker
/// thread frees a few chunks that the spawning thread allocated (closure box, thread packet); these
/// main-arena chunks then cycle through the worker's cache and every `realloc` on them takes the
/// main arena's lock, serialising allocation-heavy sweeps (format, parse). Draining the cache of
/// small chunks once at thread start and holding them for the thread's lifetime removes them
/// from circulation.
pub fn pin_foreign_chunks() -> Vec<Vec<u8>> {
    let mut hold = Vec::with_capacity(1024);
    for size in (8..=1032).step_by(16) {
        for _ in 0..8 {
            hold.push(Vec::with_capacity(size));
        }
    }
    hold
}
