#!/bin/sh
# tools/confirm_seed.sh <Cxx> <dir with patch.diff demo.rs NOTES.md>: confirms a seeded change independently
# in a scratch worktree: demo passes on HEAD, full suite passes with the change, demo fails with the change.
id=$1; dir=$2
wt=/tmp/wt-confirm
[ -d $wt ] || git -C /repo worktree add -q --detach $wt HEAD
git -C $wt checkout -q --detach "$(git -C /repo rev-parse HEAD)"; git -C $wt checkout -q -- .; rm -f $wt/tests/seed_demo.rs
cd $wt
cp $dir/demo.rs tests/seed_demo.rs
base=$(cargo test --offline --features verif-hooks,serde --test seed_demo 2>&1 | grep -E "^test result" | head -1)
rm tests/seed_demo.rs
git apply $dir/patch.diff || { echo "$id PATCH-DOES-NOT-APPLY"; exit 3; }
build=$(cargo build --offline --features verif-hooks,serde 2>&1 | grep -cE "^error")
suite=$(cargo test --workspace --no-fail-fast --offline 2>&1 | grep -E "^test result" | awk '{s+=$4; f+=$6} END {print s" passed "f" failed"}')
cp $dir/demo.rs tests/seed_demo.rs
mut=$(cargo test --offline --features verif-hooks,serde --test seed_demo 2>&1 | grep -E "^test result" | head -1)
rm tests/seed_demo.rs; git checkout -q -- .
echo "$id | demo on HEAD: $base | build errors: $build | suite with change: $suite | demo with change: $mut"
