#!/usr/bin/env python3
"""Cross-check of the harness's reference TZ evaluator against CPython's zoneinfo.

Input: a TSV written by `mc tzref-dump <out>`: file name, unix timestamp, offset the reference
model assigns.  For every line the same file is loaded with zoneinfo.ZoneInfo.from_file and the
offset CPython computes is compared.  Lines whose name starts with '@' belong to synthesised
table-free files in <synthdir>; their footer (a POSIX TZ string) is judged by glibc through
time.tzset().  Exit 0 iff all agree.  Prints `agree=<n> disagree=<m>`.
"""
import sys, os, time, zoneinfo, datetime, collections
corpus, tsv = sys.argv[1], sys.argv[2]
synth = sys.argv[3] if len(sys.argv) > 3 else None
zones = {}
agree = disagree = 0
examples = []
cur_synth, nsynth = None, 0
utc = datetime.timezone.utc
for line in open(tsv):
    name, ts, off = line.rstrip('\n').split('\t')
    ts, off = int(ts), int(off)
    if name.startswith('@'):
        # synthesised, table-free file: the footer is a POSIX TZ string, judged by glibc (time.tzset);
        # CPython 3.11's zoneinfo mis-evaluates the Jn / n day forms, glibc does not
        if name != cur_synth:
            with open(synth + '/' + name[1:], 'rb') as f:
                footer = f.read().split(b'\n')[-2].decode('ascii')
            os.environ['TZ'] = footer
            time.tzset()
            cur_synth = name
            nsynth += 1
        if ts < 31_536_000:
            continue  # glibc evaluates rules of years before 1971 as if they were 1970's
        got = time.localtime(ts).tm_gmtoff
        if got == off:
            agree += 1
        else:
            disagree += 1
            if len(examples) < 10:
                examples.append((name + ' ' + footer, ts, off, got))
        continue
    z = zones.get(name)
    if z is None:
        with open(corpus + '/' + name, 'rb') as f:
            z = zones[name] = zoneinfo.ZoneInfo.from_file(f, key=name)
    try:
        d = datetime.datetime.fromtimestamp(ts, utc).astimezone(z)
    except (OverflowError, ValueError, OSError):
        continue
    got = int(d.utcoffset().total_seconds())
    if got == off:
        agree += 1
    else:
        disagree += 1
        if len(examples) < 10:
            examples.append((name, ts, off, got))
print('agree=%d disagree=%d files=%d synthesised_footers_judged_by_glibc=%d' % (agree, disagree, len(zones), nsynth))
for e in examples:
    print('  DISAGREE file=%s ts=%d reference=%d cpython=%d' % e)
sys.exit(1 if disagree else 0)
