#!/usr/bin/env python3
"""Cross-check of the harness's reference TZ evaluator against CPython's zoneinfo.

Input: a TSV written by `mc tzref-dump <out>`: file name, unix timestamp, offset the reference
model assigns.  For every line the same file is loaded with zoneinfo.ZoneInfo.from_file and the
offset CPython computes is compared.  Exit 0 iff all agree.  Prints `agree=<n> disagree=<m>`.
"""
import sys, zoneinfo, datetime, collections
corpus, tsv = sys.argv[1], sys.argv[2]
zones = {}
agree = disagree = 0
examples = []
utc = datetime.timezone.utc
for line in open(tsv):
    name, ts, off = line.rstrip('\n').split('\t')
    ts, off = int(ts), int(off)
    z = zones.get(name)
    if z is None:
        with open(corpus + '/' + name, 'rb') as f:
            z = zones[name] = zoneinfo.ZoneInfo.from_file(f, key=name)
    try:
        d = datetime.datetime.fromtimestamp(ts, utc).astimezone(z)
    except (OverflowError, ValueError, OSError):
        continue
    got = int(d.utcoffset().total_seconds())
    if got == off:
        agree += 1
    else:
        disagree += 1
        if len(examples) < 10:
            examples.append((name, ts, off, got))
print('agree=%d disagree=%d files=%d' % (agree, disagree, len(zones)))
for e in examples:
    print('  DISAGREE file=%s ts=%d reference=%d cpython=%d' % e)
sys.exit(1 if disagree else 0)
