#!/bin/sh
# tools/run_all.sh [quick|thorough] [Cxx ...]: runs the named checks (default: every check of MANIFEST.json)
# in the given tier (default quick); prints one line per check.
cd "$(dirname "$0")/.."
tier=${1:-quick}
[ $# -gt 0 ] && shift
props="$*"
[ -z "$props" ] && props=$(python3 -c "import json;print(' '.join(c['property_id'] for c in json.load(open('MANIFEST.json'))['checks']))")
rc=0
for p in $props; do
  s=$(date +%s)
  out=$(./check $p $tier 2>>/tmp/run_all_$tier.err); code=$?
  e=$(date +%s)
  echo "$p exit=$code $((e-s))s $(echo "$out" | tail -1)"
  echo "$out" | grep -E "^(VIOLATION|KNOWN-FINDING)" | head -5
  [ $code -ne 0 ] && rc=1
done
exit $rc
