#!/usr/bin/env python3
"""Mutation analysis of the harness: small syntactic mutants of /repo/src, filtered by the repository's
own test suite, then run against the quick checks of the properties the mutated file can affect.

  tools/mutation_run.py generate            -> /verif/mutation/mutants.jsonl (deterministic)
  tools/mutation_run.py run <workers> [first [last]]   -> appends to /verif/mutation/results.jsonl
  tools/mutation_run.py report              -> summary table

Every mutant is applied in a scratch worktree under /tmp (never in /repo); the checks run through
VERIF_SUBJECT with evidence / replays redirected to /tmp. A mutant that survives both the repo suite and
the checks is either equivalent (no observable change) or a gap of the harness; those are triaged by hand
(mutation/TRIAGE.md).
"""
import json, os, re, subprocess, sys, hashlib, time
from concurrent.futures import ThreadPoolExecutor

VERIF = os.path.dirname(os.path.dirname(os.path.abspath(__file__)))  # the snapshot when started through `vp run`
OUT = os.environ.get('MUT_OUT', '/verif/mutation')
SRC_FILES = {
    'src/util/leap.rs': 'C01 C02 C05',
    'src/util/date/convert.rs': 'C01 C02 C05 C07 C09 C18',
    'src/util/date/manipulate.rs': 'C04 C05 C09 C15 C02',
    'src/util/date/validate.rs': 'C01 C15 C02 C09',
    'src/util/time/convert.rs': 'C03 C06 C04 C08 C10',
    'src/util/time/manipulate.rs': 'C04 C08 C09 C15',
    'src/util/time/validate.rs': 'C15 C08',
    'src/util/offset.rs': 'C10 C09 C08 C11',
    'src/util/format.rs': 'C11 C02 C20 C12 C13',
    'src/util/parse.rs': 'C12 C13 C14 C20',
    'src/date.rs': 'C01 C03 C04 C05 C06 C07 C09 C11 C12 C14 C20',
    'src/time.rs': 'C08 C06 C09 C10 C11 C12 C14 C15 C20',
    'src/datetime.rs': 'C03 C04 C05 C06 C07 C09 C10 C11 C12 C13 C14 C15 C20 C02',
    'src/offset.rs': 'C10 C15 C18 C19',
    'src/cron.rs': 'C16 C17 C14',
    'src/local/timezone.rs': 'C18 C19',
    'src/local/transition_rule.rs': 'C18 C19',
    'src/local/cursor.rs': 'C18 C19',
    'src/local/header.rs': 'C18 C19',
    'src/local/data_block.rs': 'C18 C19',
}
# (regex, replacement, name); applied to code outside comments, strings and the #[cfg(test)] tail
OPS = [
    (r' <= ', ' < ', 'le->lt'), (r' >= ', ' > ', 'ge->gt'),
    (r' < ', ' <= ', 'lt->le'), (r' > ', ' >= ', 'gt->ge'),
    (r' < ', ' > ', 'lt->gt'), (r' > ', ' < ', 'gt->lt'),
    (r' == ', ' != ', 'eq->ne'), (r' != ', ' == ', 'ne->eq'),
    (r'&&', '||', 'and->or'), (r'\|\|', '&&', 'or->and'),
    (r' \+ 1\b', ' + 2', 'plus1->plus2'), (r' - 1\b', ' + 1', 'minus1->plus1'), (r' \+ 1\b', ' - 1', 'plus1->minus1'),
    (r' \+ ', ' - ', 'plus->minus'), (r' - ', ' + ', 'minus->plus'),
    (r' % ', ' / ', 'rem->div'), (r' / ', ' % ', 'div->rem'), (r' \* ', ' / ', 'mul->div'),
    (r'\.div_euclid\(', '.wrapping_div(', 'div_euclid->div'), (r'\.rem_euclid\(', '.wrapping_rem(', 'rem_euclid->rem'),
    (r'\.min\(', '.max(', 'min->max'), (r'\.max\(', '.min(', 'max->min'),
    (r'\.unsigned_abs\(\)', '.unsigned_abs().wrapping_add(0).wrapping_neg().wrapping_neg()', 'noop-guard'),
    (r'\b(\d+)\b', None, 'const+1'), (r'\b(\d+)\b', None, 'const-1'),
    (r'\bu64\b', 'u32', 'u64->u32'), (r'\bi128\b', 'i64', 'i128->i64'), (r'\bu128\b', 'u64', 'u128->u64'),
    (r' as i64\b', ' as i32 as i64', 'trunc-i32'), (r' as u64\b', ' as u32 as u64', 'trunc-u32'),
    (r'\.is_negative\(\)', '.is_positive()', 'neg->pos'),
    (r'\btrue\b', 'false', 'true->false'), (r'\bfalse\b', 'true', 'false->true'),
]


def code_spans(text):
    """yield (start, end) of regions that are code: not comments, not string/char literals, and before #[cfg(test)]"""
    cut = text.find('#[cfg(test)]\nmod ')
    if cut == -1:
        cut = len(text)
    i, n = 0, cut
    start = 0
    spans = []
    while i < n:
        c = text[i]
        if text.startswith('//', i):
            spans.append((start, i))
            j = text.find('\n', i)
            i = n if j == -1 else j
            start = i
        elif c == '"':
            spans.append((start, i))
            j = i + 1
            while j < n and text[j] != '"':
                j += 2 if text[j] == '\\' else 1
            i = j + 1
            start = i
        elif c == "'" and i + 2 < n and (text[i + 2] == "'" or (text[i + 1] == '\\' and text.find("'", i + 2) - i <= 8)):
            spans.append((start, i))
            j = text.find("'", i + 2 if text[i + 1] != '\\' else i + 3)
            i = j + 1
            start = i
        else:
            i += 1
    spans.append((start, n))
    return [(a, b) for a, b in spans if b > a]


def generate():
    os.makedirs(OUT, exist_ok=True)
    muts = []
    for f, props in SRC_FILES.items():
        text = open('/repo/' + f).read()
        spans = code_spans(text)
        for rx, rep, name in OPS:
            for a, b in spans:
                for m in re.finditer(rx, text[a:b]):
                    s, e = a + m.start(), a + m.end()
                    line = text.count('\n', 0, s) + 1
                    ltxt = text[text.rfind('\n', 0, s) + 1: text.find('\n', s)]
                    if ltxt.strip().startswith(('use ', '#[', 'pub(crate) const', 'const ', 'pub const')) and name.startswith(('u64', 'i128', 'u128')):
                        continue
                    if 'panic!(' in ltxt or 'expect(' in ltxt or 'format!(' in ltxt and name.startswith('const'):
                        continue
                    if name in ('const+1', 'const-1'):
                        v = int(m.group(1))
                        if v > 1_000_000_000_000 or (name == 'const-1' and v == 0):
                            continue
                        new = str(v + 1 if name == 'const+1' else v - 1)
                    else:
                        new = rep
                    muts.append({'file': f, 'line': line, 'start': s, 'end': e, 'op': name, 'old': text[s:e], 'new': new, 'props': props, 'src_line': ltxt.strip()[:160]})
    # deterministic thinning: keep every mutant of the rarer operators, thin the constant / plus / minus ones
    muts.sort(key=lambda m: (m['file'], m['start'], m['op']))
    kept = []
    for k, m in enumerate(muts):
        h = int(hashlib.sha1(('%s:%d:%s' % (m['file'], m['start'], m['op'])).encode()).hexdigest(), 16)
        heavy = m['op'] in ('const+1', 'const-1', 'plus->minus', 'minus->plus', 'mul->div', 'u64->u32', 'i128->i64', 'u128->u64', 'trunc-i32', 'trunc-u32', 'noop-guard')
        if m['op'] == 'noop-guard':
            continue
        if heavy and h % 4 != 0:
            continue
        kept.append(m)
    for i, m in enumerate(kept):
        m['id'] = i
    with open(os.path.join(OUT, 'mutants.jsonl'), 'w') as f:
        for m in kept:
            f.write(json.dumps(m) + '\n')
    print('generated', len(muts), 'kept', len(kept))


def sh(cmd, cwd=None, env=None, timeout=900):
    try:
        p = subprocess.run(cmd, cwd=cwd, env=env, shell=True, stdout=subprocess.PIPE, stderr=subprocess.STDOUT, text=True, timeout=timeout)
        return p.returncode, p.stdout
    except subprocess.TimeoutExpired as e:
        return 124, (e.stdout or '') if isinstance(e.stdout, str) else ''


def evaluate(m, w):
    wt = '/tmp/wt-mutate-%d' % w
    if not os.path.isdir(wt):
        sh('git -C /repo worktree add -q --detach %s HEAD' % wt)
    head = sh('git -C /repo rev-parse HEAD')[1].strip()
    sh('git -C %s checkout -q --detach %s; git -C %s checkout -q -- .' % (wt, head, wt))
    path = os.path.join(wt, m['file'])
    text = open(path).read()
    if text[m['start']:m['end']] != m['old']:
        return dict(m, status='stale')
    open(path, 'w').write(text[:m['start']] + m['new'] + text[m['end']:])
    env = dict(os.environ, CARGO_NET_OFFLINE='true')
    rc, out = sh('cargo build --offline --features verif-hooks,serde 2>&1 | tail -5', cwd=wt, env=env, timeout=300)
    if 'error' in out and 'Finished' not in out:
        return dict(m, status='uncompilable')
    rc, out = sh('timeout 240 cargo test --workspace --no-fail-fast --offline 2>&1 | grep -E "^test result|timed out|Killed"', cwd=wt, env=env, timeout=400)
    res = re.findall(r'(\d+) passed; (\d+) failed', out)
    passed, failed = sum(int(a) for a, _ in res), sum(int(b) for _, b in res)
    if failed > 0 or passed < 198:
        return dict(m, status='killed-by-repo-tests', passed=passed, failed=failed)
    # survivor of the repo suite: run the mapped checks
    detected, codes = [], {}
    env2 = dict(env, VERIF_SUBJECT=wt, VERIF_EVIDENCE_DIR='/tmp/mut-ev-%d' % w, VERIF_REPLAY_DIR='/tmp/mut-rp-%d' % w, MC_SR_THREADS='4')
    first = None
    for p in m['props'].split():
        rc, out = sh('timeout 900 ./check %s quick 2>/dev/null | grep -E "^VIOLATION|^  op=" | head -2' % p, cwd=VERIF, env=env2, timeout=1000)
        rc2, _ = 0, ''
        hit = 'VIOLATION' in out
        codes[p] = 1 if hit else 0
        if hit:
            detected.append(p)
            if first is None:
                first = out.strip().split('\n')[-1][:300]
            break  # one detecting check is enough
    sh('git -C %s checkout -q -- .' % wt)
    return dict(m, status='detected' if detected else 'UNDETECTED', detected_by=detected, first=first, checks_run=list(codes))


def run(workers, first, last):
    muts = [json.loads(l) for l in open(os.path.join(OUT, 'mutants.jsonl'))]
    done = set()
    rp = os.path.join(OUT, 'results.jsonl')
    if os.path.exists(rp):
        done = {json.loads(l)['id'] for l in open(rp)}
    todo = [m for m in muts if first <= m['id'] <= last and m['id'] not in done]
    print('todo', len(todo), flush=True)
    import threading
    lock = threading.Lock()
    base = int(os.environ.get('MUT_SLOT_BASE', '0'))
    slots = list(range(base, base + workers))

    def work(m):
        with lock:
            w = slots.pop()
        try:
            t0 = time.time()
            r = evaluate(m, w)
            r['secs'] = round(time.time() - t0, 1)
        except Exception as e:  # noqa
            r = dict(m, status='error', error=str(e)[:200])
        with lock:
            slots.append(w)
            with open(rp, 'a') as f:
                f.write(json.dumps(r) + '\n')
            print(r['id'], r['file'], r['line'], r['op'], r['status'], r.get('detected_by'), flush=True)

    with ThreadPoolExecutor(max_workers=workers) as ex:
        list(ex.map(work, todo))


def recheck(slot, props, ids):
    """re-evaluates mutants against other (or extended) checks; the newest record of an id wins in the report"""
    muts = {json.loads(l)['id']: json.loads(l) for l in open(os.path.join(OUT, 'mutants.jsonl'))}
    for i in ids:
        m = dict(muts[i], props=props)
        t0 = time.time()
        r = evaluate(m, slot)
        r['secs'] = round(time.time() - t0, 1)
        r['recheck'] = True
        with open(os.path.join(OUT, 'results.jsonl'), 'a') as f:
            f.write(json.dumps(r) + '\n')
        print(r['id'], r['file'], r['line'], r['op'], r['status'], r.get('detected_by'), (r.get('first') or '')[:160], flush=True)


def recheck_all(workers):
    """every mutant whose newest record is UNDETECTED is run against all 20 quick checks (those not yet tried first)"""
    muts = {json.loads(l)['id']: json.loads(l) for l in open(os.path.join(OUT, 'mutants.jsonl'))}
    latest, tried = {}, {}
    for l in open(os.path.join(OUT, 'results.jsonl')):
        r = json.loads(l)
        if r['id'] in latest and latest[r['id']]['status'] == 'detected':
            continue
        latest[r['id']] = r
        tried.setdefault(r['id'], set()).update(r.get('checks_run', []))
    todo = [i for i, r in sorted(latest.items()) if r['status'] == 'UNDETECTED']
    allp = ['C%02d' % k for k in range(1, 21)]
    # checks that can observe each file at all (everything that calls into it, directly or not)
    reach = {
        'src/util/leap.rs': allp, 'src/util/date/convert.rs': allp, 'src/util/date/validate.rs': allp, 'src/util/constants.rs': allp,
        'src/util/date/manipulate.rs': 'C02 C04 C05 C07 C09 C10 C15 C16 C17'.split(),
        'src/util/time/convert.rs': 'C03 C04 C05 C06 C08 C09 C10 C11 C12 C13 C14 C15 C16 C17 C20'.split(),
        'src/util/time/manipulate.rs': 'C04 C08 C09 C10 C15 C16 C17'.split(),
        'src/util/time/validate.rs': 'C08 C09 C12 C13 C14 C15 C20'.split(),
        'src/util/offset.rs': 'C02 C08 C09 C10 C11 C12 C13 C14 C15 C20'.split(),
        'src/util/format.rs': 'C02 C11 C12 C13 C14 C20'.split(),
        'src/util/parse.rs': 'C12 C13 C14 C20'.split(),
        'src/date.rs': 'C01 C02 C03 C04 C05 C06 C07 C09 C11 C12 C14 C15 C20'.split(),
        'src/time.rs': 'C04 C06 C08 C09 C10 C11 C12 C14 C15 C20'.split(),
        'src/datetime.rs': allp,
        'src/offset.rs': 'C08 C09 C10 C11 C12 C13 C15 C18 C19 C20'.split(),
        'src/cron.rs': 'C14 C16 C17'.split(),
    }
    print('recheck-all todo', len(todo), flush=True)
    import threading
    lock = threading.Lock()
    base = int(os.environ.get('MUT_SLOT_BASE', '0'))
    slots = list(range(base, base + workers))

    def work(i):
        with lock:
            w = slots.pop()
        rest = [p for p in reach.get(muts[i]['file'], 'C18 C19'.split() if muts[i]['file'].startswith('src/local/') else allp) if p not in tried.get(i, set())]
        m = dict(muts[i], props=' '.join(rest))
        t0 = time.time()
        try:
            r = evaluate(m, w)
            r['secs'] = round(time.time() - t0, 1)
            r['recheck'] = 'all'
            r['checks_run'] = sorted(set(r.get('checks_run', [])) | tried.get(i, set()))
        except Exception as e:  # noqa
            r = dict(m, status='error', error=str(e)[:200])
        with lock:
            slots.append(w)
            with open(os.path.join(OUT, 'results.jsonl'), 'a') as f:
                f.write(json.dumps(r) + '\n')
            print(r['id'], r['file'], r['line'], r['op'], r['status'], r.get('detected_by'), flush=True)

    with ThreadPoolExecutor(max_workers=workers) as ex:
        list(ex.map(work, todo))


def report():
    rs = {}
    for l in open(os.path.join(OUT, 'results.jsonl')):
        r = json.loads(l)
        if r['id'] in rs and rs[r['id']]['status'] == 'detected' and r['status'] == 'UNDETECTED':
            continue  # a recheck against other properties does not undo an earlier detection
        rs[r['id']] = r
    rs = [rs[k] for k in sorted(rs)]
    from collections import Counter
    c = Counter(r['status'] for r in rs)
    print('mutants evaluated', len(rs), dict(c))
    surv = [r for r in rs if r['status'] in ('detected', 'UNDETECTED')]
    print('survived the repo suite:', len(surv), ' detected by the harness:', sum(r['status'] == 'detected' for r in surv))
    for r in rs:
        if r['status'] == 'UNDETECTED':
            print('UNDETECTED #%d %s:%d %s  `%s` -> `%s`   | %s' % (r['id'], r['file'], r['line'], r['op'], r['old'], r['new'], r['src_line']))


if __name__ == '__main__':
    if sys.argv[1] == 'generate':
        generate()
    elif sys.argv[1] == 'run':
        w = int(sys.argv[2])
        a = int(sys.argv[3]) if len(sys.argv) > 3 else 0
        b = int(sys.argv[4]) if len(sys.argv) > 4 else 10 ** 9
        run(w, a, b)
    elif sys.argv[1] == 'recheck-all':
        recheck_all(int(sys.argv[2]))
    elif sys.argv[1] == 'recheck':
        recheck(int(sys.argv[2]), sys.argv[3], [int(x) for x in sys.argv[4:]])
    else:
        report()
