#!/usr/bin/env python3
"""tools/store_seed.py <Cxx> <src dir> <seed name> "<changed site>" "<needs>" "<detection line>" """
import sys, os, json, shutil, subprocess
pid, src, name, site, needs, detect = sys.argv[1:7]
dst = '/verif/seeded/%s-%s' % (pid, name)
os.makedirs(dst, exist_ok=True)
for f in ('patch.diff', 'demo.rs', 'NOTES.md'):
    shutil.copy(os.path.join(src, f), os.path.join(dst, f))
head = subprocess.run(['git', '-C', '/repo', 'rev-parse', '--short', 'HEAD'], capture_output=True, text=True).stdout.strip()
meta = {
    "property": pid,
    "origin": "fresh sub-agent given only the property text and a scratch worktree of /repo (nothing from /verif)",
    "applies_to_repo_commit": head,
    "changed_site": site,
    "needs_to_manifest": needs,
    "confirmed_by_harness_author": {
        "how": "tools/confirm_seed.sh in a scratch worktree (/tmp/wt-confirm)",
        "demo_on_unchanged_tree": "all demo tests pass",
        "build_with_change": "cargo build --offline --features verif-hooks,serde: ok",
        "repo_suite_with_change": "cargo test --workspace --no-fail-fast --offline: 198 passed (166 tests + 32 doctests), 0 failed",
        "demo_with_change": "fails",
    },
    "harness_result": detect,
    "how_evaluated": "tools/eval_seed.sh %s/patch.diff quick %s  (patch applied to a scratch worktree, VERIF_SUBJECT)" % (dst, pid),
}
json.dump(meta, open(os.path.join(dst, 'meta.json'), 'w'), indent=1)
print('stored', dst)
