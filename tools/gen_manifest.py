#!/usr/bin/env python3
"""Regenerates /verif/MANIFEST.json from the table below (run after adding a check)."""
import json, subprocess
props = [json.loads(l) for l in open('/verif/properties.jsonl')]
TB = "Trusts rustc/std and catch_unwind, the harness's Rust reference model (independent of src/, self-checked as described in DESIGN.md §2.3) and the verif-hooks seams; verdict = no violation in the enumerated space recorded in the evidence file, under both build profiles (checked: overflow-checks+debug-assertions; fast: plain release)."
C = {
 "C01": ("Complete enumeration of all 2^32 day numbers (read-back against an independent successor walker, from_ymd round trip) and, in the thorough tier, of all 5.4e9 (year,month,day) triples of the stated quantifier, on the real code: within the quantifier nothing is left unexplored.",
         "explicit-state exhaustive enumeration of the full day-number and (y,m,d) spaces on the implementation, reference-model oracle"),
 "C02": ("weekday()/day_of_year() on all 2^32 days, format(w q e D) on every day of 7 multi-year windows and landmark days (all 2^32 days in the thorough tier), every width of e, set_day_of_year over year x 3 positions x n in 0..=367 (all 11.76 M years thorough) against walker weekday, ISO-8601 week by definition, quarter.",
         "explicit-state exhaustive enumeration of the day-number space and (year, position, n) space on the implementation, reference-model oracle"),
 "C03": ("Timestamp round trip and field read-back on every day x 5 second classes (thorough; windows + lattice quick), every second of 12 whole days, a dense out-of-range menu (panic iff out of range), and ==/</cmp plus the sign of all nine *_since on every ordered pair of ~1500 (thorough 11 000) boundary instants under 25 offset pairs, against i128 instants.",
         "exhaustive enumeration of bounded timestamp and instant-pair x offset-pair spaces on the implementation, i128 reference oracle"),
 "C04": ("Every add_/sub_ of 7 units and the Duration/Time operators on the full cross product of boundary instants x offsets x boundary counts, the complete 2^32 count axis for every unit from three base instants (thorough; 1/65537 lattice quick), plus a stateright BFS over all operation sequences to depth 2 (3 thorough) from 80 initial states; oracle: exact i128 instant arithmetic, offset unchanged, panic iff not representable.",
         "exhaustive enumeration of alphabet cross products and complete count axes + explicit-state BFS (stateright) over operation sequences, on the implementation, i128 reference oracle"),
 "C08": ("Every second of the day x sub-second bounds x boundary counts x 12 operations, complete count axis (thorough), all ordered pairs of a 4320-point grid for Time +/- Time, Duration menu up to u64::MAX s, Time::from(DateTime) on boundary instants x offsets, constructors, plus a stateright BFS over operation sequences to depth 3 (4 thorough) with the invariant as_nanos() < 1 day and canonical equality on every reached state.",
         "exhaustive enumeration + explicit-state BFS (stateright) over operation sequences on the implementation, modular-arithmetic reference oracle"),
 "C05": ("Every day of seven multi-year windows (era boundary, leap years, both range ends) x ~110 month/year counts x add/sub months/years on Date, landmark days x times x offsets on DateTime, every day of the whole range x {1, 12 months, 1, 4 years} and every N of the non-panicking region from three base dates (thorough; lattices quick); oracle: total-month arithmetic on astronomical years with end-of-month clamp, panic iff out of range.",
         "exhaustive enumeration of (day, N, operation) spaces on the implementation, reference-model oracle"),
 "C06": ("All ordered pairs of ~1500 (thorough 11 000) boundary instants under offset pairs for the seven *_since and duration_between of DateTime, a borrow grid k*unit + {-1,0,+1} ns around three anchors, inversion of add_<unit> on boundary counts, all ordered pairs of a 4320-point grid (all 7.46e9 one-second pairs thorough) for Time, all pairs of ~2200 days for Date; oracle: trunc((a-b)/unit) on i128, antisymmetry, |a-b|.",
         "exhaustive enumeration of ordered-pair spaces on the implementation, i128 reference oracle"),
 "C07": ("All ordered pairs of dates inside five multi-year windows (era boundary, 1900, 2016-2025, both range ends; ~47 M pairs thorough) and all pairs x 4x4 times of day inside two DateTime windows, plus a deterministic lattice of far-apart pairs: exact value where the statement defines it (reference self-checked against its defining inequality on every pair), antisymmetry and monotonicity for all pairs.",
         "exhaustive enumeration of all ordered pairs inside windows on the implementation, reference-model oracle with per-pair self-check"),
 "C09": ("Full cross product of ~1400 boundary instants x 27 boundary offsets x (10 setters x every in-range value plus out-of-range and wrap-back values, 9 clear_until_*), every whole-minute offset (every offset thorough) on an instant subset, Date and Time analogues, and a stateright BFS over sequences of set/clear/set_offset to depth 2 (3 thorough); oracle: field replacement / truncation on the decomposed local instant, getters read back.",
         "exhaustive enumeration of alphabet cross products + explicit-state BFS (stateright) over operation sequences on the implementation, reference-model oracle"),
 "C10": ("~450 instants x every whole-minute offset (all 172 799 offsets thorough) and x all pairs (previous, new) of 27 boundary offsets: set_offset keeps timestamp, ==, cmp and all differences while all 11 getters and the formatted fields equal the decomposition of instant + offset; as_offset keeps fields and shifts the instant; Time analogues on all 86 400 seconds; Offset constructors/resolve round trip on all 172 799 offsets.",
         "exhaustive enumeration of instant x offset spaces on the implementation, reference-model oracle"),
 "C11": ("Every single token (19 symbols x widths 1..=10) on every day of seven windows plus landmarks, every second of the day x sub-second bounds, and the offset axis, plus every pattern of <= 3 pieces from an alphabet of 44/56/88 pieces (symbols at widths 1,2,4,5, literals incl. multi-byte, quoted text, '') x 20 values with offsets, for Date, Time and DateTime, against a renderer written from the rustdoc symbol table.",
         "exhaustive enumeration of bounded pattern x value spaces on the implementation, table-driven reference renderer"),
 "C12": ("15 288 patterns generated from the unambiguous-field grammar (32 date parts x 24 time parts x 11 zone symbols x separators/quoted text) x 2 928 values (all eras, months >= 10, hours 0/11/12/13/23, noon/midnight, offsets with and without seconds): format -> parse -> format must reproduce the string; full patterns must recover instant and offset.",
         "exhaustive enumeration of a generated pattern grammar x value set on the implementation, round-trip oracle"),
 "C13": ("Write side: every 11th day (every day thorough) of years 1..=9999 x two times x {Z,+05:30} x 5 precisions and boundary instants x all 2 879 whole-minute offsets x 5 precisions - output equals the reference rendering, is accepted by an ABNF recogniser and reads back to the truncated instant and offset. Read side: the bounded ABNF product dates x times x fractions of every length 1..=40 x 7 offset spellings, and 128 single-field mutations to out-of-range values that must be rejected.",
         "exhaustive enumeration of bounded ABNF string products and value x offset x precision spaces on the implementation, recogniser/reference oracle"),
 "C14": ("Exhaustive bounded string families through every text entry point in a supervised child process: every string of length <= 4 (5 thorough) over a 16-symbol alphabet incl. 2- and 3-byte characters and NUL for each of 19 symbols x 6 widths; every pattern of length <= 4 over 24 pattern characters for parse and format; every 2-piece composite pattern x every string of length <= 3 and every truncation / single substitution of the formatted text; every truncation, single and double substitution of five fixed-format templates; range-end texts with zones; every cron field string of length <= 4 (5). Outcome class must be Ok/Err/String and Ok values valid; an abort or hang is traced to the case.",
         "exhaustive fault / hostile-input enumeration over bounded string families on the implementation (outcome-class oracle, subprocess supervision)"),
 "C15": ("Full cross products of boundary alphabets for every fallible constructor and all 10 setters, complete 2^32 sweeps of Time::from_seconds and Offset::from_seconds; Ok iff reference-valid and reads back its arguments, Err is OutOfRange, and a stated range is checked against the set of values the real function accepts for the named parameter.",
         "exhaustive enumeration of boundary-alphabet cross products and complete u32/i32 argument axes on the implementation, validity oracle"),
 "C16": ("Every item of the documented grammar for each of the five fields (every value, every range a<=b, every step 1..=max+1, month and weekday names in four casings, name ranges, 7 and a-7, lists) observed through the iterator under a pinned clock across a window containing every value of the field, plus every single-character deletion / insertion / substitution (41-character alphabet) of ~300 base expressions (~300 000 mutants) classified by a strict reference parser: accept/reject must agree, accepted mutants must denote the reference sets and yield the reference's first minutes.",
         "exhaustive enumeration of the documented grammar and of all single-edit mutants on the implementation (hooked clock), reference-parser oracle"),
 "C17": ("stateright BFS over every history of (advance the pinned clock by one of 9 amounts from 0 s to 400 d, call next) and clone-and-continue up to depth 3 (4 thorough) from 12 (41) satisfiable schedules x 30 second-granular start instants (month ends, leap days, year ends, inside/just before/just after a matching minute); every next() is compared with a brute-force 'earliest matching minute after max(now, previous)' evaluator on the reference calendar.",
         "explicit-state BFS (stateright) over clock-advance/next histories on the real iterator with a hooked clock, brute-force reference oracle"),
 "C20": ("Display, FromStr and serde_json round trips on every day of seven windows, landmarks and a day lattice (all 2^32 days thorough) for Date, all 86 400 seconds x 27 offsets for Time, every 23rd day (every day thorough) of years 1..=9999 x 2 times x 3 offsets and boundary instants x all 2 879 whole-minute offsets for DateTime; malformed side: every string of length <= 4 over a 16-symbol alphabet and every truncation / single / double substitution of four templates through Deserialize for all three types (serde error, never a panic).",
         "exhaustive enumeration of value and bounded document spaces on the implementation, reference-rendering and round-trip oracle"),
}
LEVEL = {"C14": "fault_enumeration", "C19": "fault_enumeration"}
NA_REASON = "check not built yet in this revision of the harness (planned: bounded exhaustive exploration, DESIGN.md §5)"
hooks_commit = subprocess.run(["git","-C","/repo","log","--format=%h","--grep=^verif-hooks"],capture_output=True,text=True).stdout.split()
checks = []
for p in props:
    pid = p["id"]
    if pid not in C: continue
    text, tech = C[pid]
    checks.append({"property_id": pid, "quick_cmd": "./check %s quick" % pid, "thorough_cmd": "./check %s thorough" % pid,
        "evidence_file": "/verif/evidence/%s.json" % pid, "replay_cmd_template": "./check replay {path}", "engine": "mc",
        "level_claimed": {"category": LEVEL.get(pid, "model_checking"), "text": text, "design_ref": "DESIGN.md §5 " + pid},
        "level_note": TB, "technique": tech})
m = {"version": 1, "setup_cmd": "./setup.sh",
     "hooks": {"guard": "cargo feature verif-hooks",
               "enable": "the harness crate (/verif/mc, instantiated under /verif/.build/repo) depends on astrolabe by path with features [serde, verif-hooks]; built in profiles checked (overflow-checks + debug-assertions) and fast (release)",
               "baseline_off_cmd": "cd /repo && cargo test --workspace --no-fail-fast --offline",
               "source_commits": hooks_commit, "add_only": True},
     "engines": [{"name": "mc", "path": "/verif/mc", "serves_properties": sorted(C),
                  "kind_free_text": "Rust harness run on the real code: E1 exhaustive state/input sweeps (16 threads), E2 stateright explicit-state search over operation sequences, E3 exhaustive fault/hostile-input enumeration; driver ./check merges both build profiles into the evidence file"}],
     "checks": checks,
     "not_applicable": [{"property_id": p["id"], "reason": NA_REASON} for p in props if p["id"] not in C],
     "notes": "See DESIGN.md. Exit 0 = held on everything explored (KNOWN-FINDING lines possible), 1 = VIOLATION line printed, 2 = machinery error (never a verdict). known_findings.txt lists open and fixed findings."}
json.dump(m, open('/verif/MANIFEST.json', 'w'), indent=1)
print("claimed", len(checks), "not_applicable", len(m["not_applicable"]))
