#!/usr/bin/env python3-vt
import json, jsonschema, glob, sys
m = json.load(open('/verif/MANIFEST.json'))
jsonschema.validate(m, json.load(open('/root/.vp/MANIFEST.schema.json')))
es = json.load(open('/root/.vp/EVIDENCE.schema.json'))
bad = 0
for f in sorted(glob.glob('/verif/evidence/*.json')):
    try:
        jsonschema.validate(json.load(open(f)), es)
    except Exception as e:
        bad += 1; print('INVALID', f, str(e)[:300])
ids = {json.loads(l)['id'] for l in open('/verif/properties.jsonl')}
claimed = {c['property_id'] for c in m['checks']}
na = {c['property_id'] for c in m.get('not_applicable', [])}
assert claimed | na == ids and not (claimed & na), (ids - claimed - na, claimed & na)
print('manifest valid; claimed', len(claimed), 'n/a', len(na), 'evidence invalid', bad)
sys.exit(1 if bad else 0)
