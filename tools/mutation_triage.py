#!/usr/bin/env python3
"""Writes mutation/TRIAGE.md from mutation/results.jsonl and the hand-written notes in mutation/notes.json."""
import json, collections
muts = {json.loads(l)['id']: json.loads(l) for l in open('/verif/mutation/mutants.jsonl')}
NOTES = {int(k): v for k, v in json.load(open('/verif/mutation/notes.json')).items()}
CLOSED = {int(k): v for k, v in json.load(open('/verif/mutation/closed.json')).items()}
latest, first = {}, {}
for l in open('/verif/mutation/results.jsonl'):
    r = json.loads(l)
    first.setdefault(r['id'], r)
    if r['id'] in latest and latest[r['id']]['status'] == 'detected':
        continue
    if r['id'] in latest and latest[r['id']]['status'] == 'UNDETECTED' and r['status'] == 'killed-by-repo-tests':
        continue  # time-of-day dependent repo tests (#58): keep the survivor classification
    latest[r['id']] = r
c = collections.Counter(r['status'] for r in latest.values())
surv = [r for r in latest.values() if r['status'] in ('detected', 'UNDETECTED')]
det = [r for r in surv if r['status'] == 'detected']
und = sorted((r for r in surv if r['status'] == 'UNDETECTED'), key=lambda r: r['id'])
late = [r for r in det if first[r['id']]['status'] == 'UNDETECTED']
byprop = collections.Counter(r['detected_by'][0] for r in det)


def show(m):
    t = open('/repo/' + m['file']).read()
    ls = t.rfind('\n', 0, m['start']) + 1
    le = t.find('\n', m['end'])
    return (t[ls:m['start']].strip() + ' ⟦' + m['old'].strip() + ' → ' + m['new'].strip() + '⟧ ' + t[m['end']:le].strip()).replace('|', '\\|')


out = ['# Mutation analysis of the harness - triage of the survivors\n']
out.append('Tool: `tools/mutation_run.py` (generate / run / recheck / recheck-all / report), this file by `tools/mutation_triage.py`. Mutants: {} single-token changes of `src/**` (comparison swaps, and/or, ±1 on operators and constants, plus ↔ minus, rem ↔ div, mul → div, div_euclid/rem_euclid → truncating forms, min ↔ max, narrowing casts, is_negative → is_positive, true ↔ false). Each is applied in a scratch worktree of `/repo` (never in `/repo`), built with the hooks and serde features, run against the **unedited repository suite** (198 tests must pass for the mutant to count as a survivor), and only then run against the quick checks of every property whose code can reach the mutated file, until one reports a violation.\n'.format(len(muts)))
out.append('| outcome | mutants |\n|---|---|\n| does not compile | {} |\n| killed by the repository\'s own tests | {} |\n| **survives the repository suite** | **{}** |\n| - detected by a quick check | {} |\n| - not detected | {} |\n'.format(c['uncompilable'], c['killed-by-repo-tests'], len(surv), len(det), len(und)))
out.append('Detecting check (first one that fired): ' + ', '.join('{} {}'.format(k, v) for k, v in sorted(byprop.items())) + '.\n')
out.append('## Survivors that exposed a gap ({}) - all closed\n'.format(len(late)))
out.append('These were *not* detected by the checks the first pass ran and are detected now.\n')
out.append('| # | site | change | closed by |\n|---|---|---|---|')
for r in sorted(late, key=lambda r: r['id']):
    out.append('| {} | `{}:{}` | `{}` | {} (detected by {}) |'.format(r['id'], r['file'], r['line'], show(muts[r['id']]), CLOSED.get(r['id'], 'extended checks'), r['detected_by'][0]))
ce = sum(1 for r in und if NOTES[r['id']][0] == 'E')
out.append('\n## Survivors not detected ({}) - each examined by hand\n'.format(len(und)))
out.append('**E** = equivalent: no input makes the mutant behave differently ({}). **O** = observable only outside every property - an unhooked clock reader, numbers inside an error or panic text that no property reads, acceptance of malformed TZ data without a panic, or a value the property\'s quantifier excludes ({}). None of them is a change that breaks one of C01-C20, so none is a miss.\n'.format(ce, len(und) - ce))
out.append('| # | site | change | class | why |\n|---|---|---|---|---|')
for r in und:
    k, n = NOTES[r['id']]
    out.append('| {} | `{}:{}` | `{}` | {} | {} |'.format(r['id'], r['file'], r['line'], show(muts[r['id']]), k, n))
out.append('\nNote on #58: it passed the repository suite in the first pass and failed 3 of its tests in a later pass - those tests compare `Date::now()` with the system clock, so the outcome depends on the time of day.\n')
open('/verif/mutation/TRIAGE.md', 'w').write('\n'.join(out) + '\n')
print(dict(c), 'survivors', len(surv), 'detected', len(det), 'undetected', len(und), 'gaps closed', len(late), 'E', ce, 'O', len(und) - ce)
