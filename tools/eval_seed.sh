#!/bin/sh
# Evaluates one seeded change: tools/eval_seed.sh <patch.diff> <tier> <Cxx> [<Cyy> ...]
# The patch is applied to a scratch worktree of /repo (never to /repo itself); the named checks
# run against it (VERIF_SUBJECT); evidence and replays go to a scratch directory.
set -u
patch=$1; tier=$2; shift 2
wt=/tmp/wt-eval
cd "$(dirname "$0")/.."
if [ ! -d $wt ]; then git -C /repo worktree add -q --detach $wt HEAD; fi
git -C $wt checkout -q --detach "$(git -C /repo rev-parse HEAD)" 2>/dev/null
git -C $wt checkout -q -- . && git -C $wt clean -fdq -e target
git -C $wt apply "$patch" || { echo "PATCH-DOES-NOT-APPLY $patch"; exit 3; }
out=/tmp/seed-eval; mkdir -p $out/evidence $out/replays
for p in "$@"; do
  res=$(VERIF_SUBJECT=$wt VERIF_EVIDENCE_DIR=$out/evidence VERIF_REPLAY_DIR=$out/replays ./check $p $tier 2>/dev/null); code=$?
  echo "== $p exit=$code: $(echo "$res" | tail -1)"
  echo "$res" | grep -A1 "^VIOLATION" | head -6 | cut -c1-300
done
git -C $wt checkout -q -- .
