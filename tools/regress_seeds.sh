#!/bin/sh
# tools/regress_seeds.sh [workers]: re-runs every stored seeded change (seeded/*/patch.diff) and every own
# mutant (mutants/*.patch) against the quick check of the property it targets, each in a scratch worktree
# of /repo (never /repo itself). Prints one line per change; exit 1 if any is not detected.
cd "$(dirname "$0")/.."
W=${1:-4}
ls -d seeded/*/ mutants/*.patch 2>/dev/null | grep -E "${REGRESS_FILTER:-.}" | awk -v w=$W '{print NR % w, $0}' > /tmp/regress-list.txt
for k in $(seq 0 $((W-1))); do
  (
    wt=/tmp/wt-regress-$k
    [ -d $wt ] || git -C /repo worktree add -q --detach $wt HEAD
    grep "^$k " /tmp/regress-list.txt | cut -d' ' -f2 | while read item; do
      if [ -d "$item" ]; then patch=$PWD/${item}patch.diff; prop=$(basename $item | cut -c1-3); name=$(basename $item)
      else patch=$PWD/$item; prop=$(basename $item | cut -c1-3); name=$(basename $item .patch); fi
      git -C $wt checkout -q --detach "$(git -C /repo rev-parse HEAD)"; git -C $wt checkout -q -- .; git -C $wt clean -fdq -e target
      if ! git -C $wt apply "$patch" 2>/dev/null; then echo "$name PATCH-DOES-NOT-APPLY"; continue; fi
      out=$(VERIF_SUBJECT=$wt VERIF_EVIDENCE_DIR=/tmp/regress-ev-$k VERIF_REPLAY_DIR=/tmp/regress-rp-$k ./check $prop quick 2>/dev/null); code=$?
      if [ $code -eq 1 ] && echo "$out" | grep -q "^VIOLATION property=$prop"; then echo "$name DETECTED by $prop"; else echo "$name NOT-DETECTED (exit $code)"; fi
    done
    git -C /repo worktree remove --force $wt
    rm -rf /tmp/regress-ev-$k /tmp/regress-rp-$k
  ) &
done
wait
